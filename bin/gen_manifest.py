#!/usr/bin/env python3
"""Regenerates /verif/MANIFEST.json from bin/props.py (keeps it valid at all times)."""
import json, os, sys
sys.path.insert(0, os.path.dirname(os.path.abspath(__file__)))
from props import PROPS, NOT_APPLICABLE, MANIFEST_TEXT, SIM_NOTE

VERIF = os.path.dirname(os.path.dirname(os.path.abspath(__file__)))
baseline = json.load(open("/root/.vp/BASELINE.json"))["cmd"]
ids = [json.loads(l)["id"] for l in open(os.path.join(VERIF, "properties.jsonl"))]
checks = []
for pid in ids:
    if pid not in PROPS:
        continue
    t = MANIFEST_TEXT.get(pid) or {"technique": "deterministic simulation with fault injection (seeded plans, seeded scheduler, replayable)",
                                  "level_text": "Seeded exploration by deterministic simulation; see DESIGN.md.", "level_note": SIM_NOTE}
    checks.append({
        "property_id": pid,
        "quick_cmd": "python3 bin/check %s --tier quick" % pid,
        "thorough_cmd": "python3 bin/check %s --tier thorough" % pid,
        "evidence_file": "/verif/evidence/%s.json" % pid,
        "replay_cmd_template": "python3 bin/check %s --replay {path}" % pid,
        "engine": "verifsim",
        "level_claimed": {"category": PROPS[pid]["level"], "text": t["level_text"], "design_ref": "DESIGN.md §6 " + pid},
        "level_note": t["level_note"],
        "technique": t["technique"],
    })
na = [{"property_id": p, "reason": NOT_APPLICABLE[p]} for p in ids if p not in PROPS]
m = {
    "version": 1,
    "setup_cmd": "python3 bin/check --build-only",
    "hooks": {
        "guard": "verif",
        "enable": "go1.26.8 test -tags verif -overlay=<generated> -modfile=<copy of /repo/go.mod + porcupine> -c ./verifsim/ (harness, export shims and instrumented copies are injected by -overlay at check time; nothing is committed to /repo)",
        "baseline_off_cmd": baseline,
        "source_commits": [],
        "add_only": True,
    },
    "engines": [{"name": "verifsim", "path": "/verif/sim", "serves_properties": [c["property_id"] for c in checks],
                 "kind_free_text": "deterministic simulation with fault injection: real authservice code + strict IdP model + miniredis inside a Go 1.26.8 synctest bubble; seeded fake-time-delay scheduler; seeded plans; delta-debugged replay files"}],
    "checks": checks,
    "not_applicable": na,
    "notes": "Known findings and fixed defects: /verif/known_findings.json. Design: /verif/DESIGN.md.",
}
json.dump(m, open(os.path.join(VERIF, "MANIFEST.json"), "w"), indent=1)
print("MANIFEST.json: %d checks, %d not applicable" % (len(checks), len(na)))
