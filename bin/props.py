"""Static per-property settings of the driver: budgets, evidence texts, probes that must fire."""

REAL = ["server.ExtAuthZFilter.Check", "authz.oidcHandler", "oidc.memoryStore", "oidc.redisStore", "oidc.sessionStoreFactory (PreRun)",
        "oidc.DefaultJWKSProvider + jwx jwk.Cache", "internal.LocalConfigFile.Validate (config file on disk)", "internal.TLSConfigPool",
        "inthttp.NewHTTPClient", "net/http client+server", "go-redis client"]
STUB = ["Envoy (CheckRequests built by the simulator)", "browsers / attacker (simulator agents)", "identity provider (strict executable model, std-lib JOSE)",
        "Redis server (miniredis, clock slaved to the bubble)", "OS clock (testing/synctest fake clock)", "network (in-memory pipes)"]
COMPONENTS = {"real": REAL, "stub": STUB}
ASSUME = ["Go 1.26.8 testing/synctest fake clock and quiescence detection", "miniredis fidelity for HSET/HSETNX/HMSET/HMGET/HGET/HDEL/DEL/EXPIREAT/PING",
          "the strict IdP model and std-lib JOSE verifier are the reference for the peer", "sampling: a clean batch is evidence over the sampled plans, not proof"]


def P(rule, quick, thorough, level="exploration", must=None, **kw):
    d = {"rule": rule, "quick": quick, "thorough": thorough, "level": level, "components": COMPONENTS, "assumptions": ASSUME, "must_probe": must or {}}
    d.update(kw)
    return d


PROPS = {
    "C03": P("plans = (filter configuration x compliant IdP behaviour x requested URL x follow-up requests inside token lifetime), the index enumerating the boolean "
             "cross product (expires_in present, access-token forwarding, refresh none/static/rotate, aud array, extra members, memory/Redis) with the rest drawn from the seed; "
             "an eighth of the plans each: RECOVERY (a prelude in which 1-3 seam calls fail - store, Redis half-way through a call, token / key / discovery endpoint, connection refused, "
             "Envoy giving up, crash - then the faults stop and three browsers must each still be logged in or get through one pass of login, on 1-3 replicas) and STALL (one request's "
             "discovery or token answer stays outstanding while other browsers log in); "
             "non-trivial = the login completed; distinct = distinct (configuration shape, provider shape, history length)",
             {"runs": 30000, "budget_s": 25}, {"runs": 400000, "budget_s": 600}, must={"all": ["login-completed", "further-requests-ok", "login-completed-after-faults", "logins-completed-while-another-answer-was-outstanding"]}),
    "C09": P("plans = set-up (fresh / expired-refreshable / mid-login session) + a logout task interleaved with 1-2 concurrent checks on the same cookie by the seeded scheduler at "
             "store-call and token-endpoint granularity (uniform and priority policies, IdP latency drawn per plan) + later sequential requests; plus sequential histories with logouts "
             "and logouts whose session removal fails; non-trivial = a logout was answered and at least one check with that cookie returned after it; distinct = canonical event trace + schedule trace",
             {"runs": 40000, "budget_s": 30}, {"runs": 1500000, "budget_s": 900, "selftest_runs": 200},
             must={"all": ["refresh_in_flight_at_logout", "callback_in_flight_at_logout", "logout_first", "logout_last", "store-err-before", "store-err-after"]}),
    "C06": P("plans = (request instant at ns granularity, attacker window, hidden offset, k); modes: replay divergence (same plan, same simulated clock, two fresh processes-worth of state), "
             "k logins at one frozen instant, redirect for a presented id, time-window attacker trying every candidate instant in +-w ns with a fresh replica per candidate; "
             "non-trivial = identifiers were produced and compared; distinct = (mode, instant, window, offset, k). evaluations counts plans; probes count candidate logins",
             {"runs": 1200, "budget_s": 25}, {"runs": 200000, "budget_s": 600}, must={"all": ["replayed-logins", "same-instant-logins", "time-window-candidates", "restarted-logins", "concurrent-logins"]}),
    "C01": P("plans = seeded histories of 5-40 steps (honest browsing, logout, attacker requests with absent/garbage/foreign/stale/attacker-chosen cookies on protected, public and "
             "trigger-rule edge-case targets, forged callbacks, clock advances around token expiry, IdP behaviour changes, key rotation, crash-restart) in a fault-free and a fault-injecting "
             "configuration (store err-before/err-after/evict/corrupt/crash at the n-th seam call, token endpoint reset-before/reset-after/5xx/truncated/garbage, key-source errors), "
             "plus a systematic sweep: a scenario through every seam is recorded fault-free and re-run once per seam call x fault kind and for sampled pairs; "
             "non-trivial = at least one justified OK and (a fault fired inside a check or an attacker request was judged); distinct = canonical event trace",
             {"runs": 4000, "budget_s": 35}, {"runs": 400000, "budget_s": 900}, level="fault_enumeration",
             must={"all": ["justified-ok", "ok-by-refresh", "sweep-single-faults", "sweep-pair-faults", "store-err-before", "store-err-after", "token-reset-after", "jwks-err", "crash-restart"]}),
    "C04": P("plans = 2-3 browsers and an attacker start logins (sequentially or concurrently), then all callbacks run as concurrent tasks interleaved at store-call / token-endpoint granularity with "
             "crafted callbacks (code and state taken from own / another browser's / forged / near-miss values, under own / another / no cookie; query variants: re-ordered, duplicated, "
             "differently-cased, empty, extra, missing members, fragment), then replays of completed callbacks; the strict RFC 6749/7636 monitor judges every token request; "
             "non-trivial = a login completed and a crafted callback reached the state lookup; distinct = event trace + schedule trace",
             {"runs": 30000, "budget_s": 30}, {"runs": 600000, "budget_s": 900}, must={"all": ["logins-completed", "crafted-callback-reached-state-lookup", "crafted-callback-reached-token-endpoint"]}),
    "C05": P("plans = histories in which clients present absent, stale, attacker-chosen, pending and authenticated session ids on protected, public and edge-case paths, cookie-name prefixes over "
             "RFC 6265 token characters, all redirects of a run possibly at one frozen instant; every Set-Cookie is parsed by an independent RFC 6265 parser; store spy checks where tokens are written; "
             "non-trivial = redirects answered at least two classes of presented id; distinct = canonical event trace",
             {"runs": 20000, "budget_s": 30}, {"runs": 800000, "budget_s": 900},
             must={"all": ["redirect-presented:none", "redirect-presented:pending", "redirect-presented:authenticated", "redirect-presented:stale", "redirect-presented:attacker-chosen", "tokens-bound"]}),
    "C11": P("plans = one login followed by 3-30 token lifetimes of (IdP behaviour change; clock advance past expiry; request), the provider rotating refresh tokens, omitting id_token / access_token / "
             "expires_in / refresh_token, echoing or emptying the nonce, rotating keys with and without publishing them, denying, forging refresh answers, and losing replies after processing; the "
             "refresh-token ledger and the merge model judge every exchange; non-trivial = at least one successful refresh; distinct = canonical event trace",
             {"runs": 14000, "budget_s": 30}, {"runs": 800000, "budget_s": 900},
             must={"all": ["successful-refreshes", "failed-refreshes", "rotations-followed", "refresh-omitted-id-token", "token-reset-after"]}),
    "C13": P("plans = login flows under configurations drawn for URL well-formedness: client ids, scopes, callback and authorization URIs with and without their own query, with reserved, space, "
             "percent and non-ASCII characters; requested targets likewise; a quarter of the plans are two chains sharing one client registration (client id, secret) at one provider with a redirect URI and scopes of their own; the provider-side strict parser (independent splitter/decoder) judges every Location against the sending filter's redirect URI and scope set; the Location of the check that completes a login is compared byte for byte with the URL that session's login redirect was issued for (callback URL as first target included); "
             "non-trivial = a login completed; distinct = canonical event trace x configuration",
             {"runs": 30000, "budget_s": 30}, {"runs": 800000, "budget_s": 900}, must={"all": ["logins-completed"]}),
    "C14": P("plans = the union mix: C01's fault-injecting histories, C09's concurrent logout races, C11's refresh histories with lost replies, a third of them with debug logging; every secret "
             "(client secret, PKCE verifiers, refresh/access/ID tokens) is a unique marker searched in every answer, raw and after URL/base64 decoding; non-trivial = a non-OK answer was produced "
             "while secrets were live; distinct = canonical event trace",
             {"runs": 20000, "budget_s": 35}, {"runs": 600000, "budget_s": 900}, must={"all": ["non-ok-responses-while-secrets-live", "responses-scanned"]}),
    "C02": P("plans = histories mixing honest and Byzantine token answers on the login and the refresh path (adversarial grammar: alg=none, HMAC-with-public-key confusion, foreign key with "
             "same/other/no kid, another provider's key, tampered payload or signature, stripped signature, extra dots, two parts, JWS JSON serialisation, nested, empty, garbage, whitespace, "
             "absent/foreign/near-miss/substring/array-without audience, absent/foreign/empty/previous nonce, another session's token, the provider's retired or never published key), key rotation (incl. histories that outlast two key-fetch intervals on the fake clock) and key-source errors around validation, "
             "all header/preamble configurations; every token bound to a session and every stored token is re-verified by a std-lib-only verifier against the provider's keys and ledger; "
             "non-trivial = at least one forged answer was delivered and at least one honest token was bound; distinct = canonical event trace",
             {"runs": 30000, "budget_s": 30}, {"runs": 800000, "budget_s": 900}, must={"all": ["forged-answers", "tokens-bound", "justified-ok"]}),
    "C15": P("plans by fault kind: hostile client (27 malformed CheckRequest shapes: absent message parts, empty/huge fields, hostile cookies, hosts, paths, queries), malformed token-endpoint "
             "bodies at login and refresh (34 bodies from a JSON grammar: null, arrays, scalars, wrong member types, huge/negative/fractional numbers, duplicates, truncation, non-UTF-8, deep nesting, 4 MB), "
             "honestly signed tokens with claims of unexpected type (15 productions), malformed JWKS and discovery documents, a store that answers nil/empty/partial/unparsable values or whose Redis "
             "fields are corrupted in place, and all of these mixed into C01-style histories; oracle = recover() around Check + verdict well-formedness; "
             "non-trivial = a malformed input was delivered; distinct = canonical event trace",
             {"runs": 25000, "budget_s": 35}, {"runs": 600000, "budget_s": 900},
             must={"all": ["raw-requests", "token-raw-body", "store-lie", "jwks-raw-body", "discovery-raw-body", "concurrent-session-loss-runs"]}),
    "C12": P("plans = sequences of 5-80 store operations (set/get tokens, set/get/clear login state, remove, sweep, clock advance) over 1-4 session ids, each routed to the memory store or to one of "
             "two Redis store instances sharing one miniredis; after every operation the return value is compared with a plain-map model and the complete ground-truth content of each store is "
             "compared with the model (tokens, login state, creation time, no foreign ids); three in ten fault-free plans configure limits inside the history (sessions also leave the map by running out); a third of the plans inject Redis command failures (before/after effect) and crashes between the "
             "commands of one store method, judged with the narrow prefix-of-writes relaxation; every fourth plan is a concurrent history on the memory store (2-4 client tasks x 3-6 operations on 1-2 ids) in the "
             "instrumented build (pre-emption at every statement and inside critical sections), invoke/return stamped with the global event sequence number, values unique, checked with porcupine; non-trivial = a session was created and read; distinct = operation/result trace",
             {"runs": 40000, "budget_s": 30}, {"runs": 1200000, "budget_s": 900}, instr=True,
             must={"all": ["linearizability-histories", "histories-with-overlapping-writers-on-one-id", "overwrite-with-fewer-members", "clear-on-live-session", "remove-live-session", "same-id-on-both-redis-instances", "methods-interrupted-by-fault", "redis-cmd-err-before", "redis-cmd-err-after", "crash-between-redis-commands"]}),
    "C10": P("plans = (absolute, idle) pairs from {0,1 s,5 s,1 min,10 min,1 h,1 d,30 d}^2; store level: histories of 5-60 operations on the memory store and two Redis store instances with clock advances "
             "placed on either side of each limit (limit-2 s, limit+2 s, fractions, multiples); system level: a browser logs in at a replica built through the start-up wiring with long-lived tokens, the clock "
             "advances and a request probes the session (plus crash-restart with Redis); the oracle allows one second of granularity; non-trivial = a session was read inside or past its limits; "
             "distinct = operation/result trace",
             {"runs": 30000, "budget_s": 30}, {"runs": 1200000, "budget_s": 900},
             must={"all": ["reads-past-limits", "reads-inside-limits", "system-reads-past-limits", "system-reads-inside-limits", "kept-alive-up-to-the-absolute-limit"]}),
    "C18": P("plans = 2-3 OIDC filters in different chains (header match), distinct or equal cookie names, providers, client ids and timeouts, over four store topologies (shared memory store, shared Redis, "
             "distinct Redis servers, mixed); a browser logs in at one filter and presents that session to the others under their cookie names (alone, with both cookies, mid-login at the other "
             "filter's callback), keeps a legitimate session at each, and every filter's own session is probed 2 s before and after that filter's own limits; "
             "non-trivial = a session of one filter was presented to another; distinct = canonical event trace",
             {"runs": 4000, "budget_s": 30}, {"runs": 400000, "budget_s": 900}, must={"all": ["foreign-session-presented", "own-limits-probed", "concurrent-logins-at-different-filters", "refresh-after-another-filters-login"]}),
    "C19": P("plans = 1-4 filters mapped to Secret names (shared, distinct, inline secret, explicit own namespace; every tenth plan a cross-namespace reference that start-up must refuse) and histories of "
             "set / delete / delete-with-finalizer / remove-key / empty / replace (delete + re-create, also the way immutable Secrets are rotated) events on referenced and unrelated Secrets in the own and another namespace, delivered by the simulator as reconcile requests "
             "with duplication, delay and reordering, interleaved with logins and refreshes; reference = map secret name -> last non-empty value at a completed reconcile; judged at the token endpoint "
             "(Basic header on the code grant, client_secret form member on the refresh grant) and on every filter's configuration after each reconcile; "
             "non-trivial = a token request was made after a completed reconcile (or a cross-namespace start-up was judged); distinct = canonical event trace",
             {"runs": 20000, "budget_s": 30}, {"runs": 400000, "budget_s": 900},
             must={"all": ["token-requests-after-reconcile", "runs-with-rotation", "cross-namespace-start-ups", "k8s-event:deleting", "k8s-event:remove-key", "k8s-event:empty", "k8s-event:delete"]}),
    "C20": P("plans = (inline CA | CA file | neither) x skip-verify (absent, true, \"true\", false, \"false\") x refresh interval (0, 1 s ... 1 h) x server certificate chaining to CA1, CA2 or an unknown CA, "
             "with histories of CA-file rewrites (CA1, CA2, both, unknown, torn, garbage, empty, deleted), server certificate changes, clock advances around the poll instants, handshake probes by "
             "clients built with NewHTTPClient from the real pool, logins through Check, and same-settings pointer checks; every seventh plan re-registers a watcher for the same file id several times "
             "and counts reads/callbacks of the superseded ones; another seventh runs 2-4 concurrent FIRST loads of identical settings in the instrumented build "
             "(statement-level pre-emption inside LoadTLSConfig / WatchFile), compares the configurations handed out and rotates the CA file afterwards; expectation computed with crypto/x509 from the file content as of the last poll; "
             "non-trivial = at least one handshake was attempted; distinct = event log",
             {"runs": 12000, "budget_s": 35}, {"runs": 300000, "budget_s": 900}, instr=True,
             must={"all": ["concurrent-first-loads", "two-interval-runs", "ca-rotations-by-symlink-swap", "long-lived-client-probes", "handshakes-judged:ok", "handshakes-judged:fail", "handshakes-after-a-rotation", "login-handshakes", "watchers-superseded", "same-config-checks", "ca-file:torn", "ca-file:delete"]}),
    "C16": P("plans = 4-12 concurrent tasks per run (first request, whole login, request on a fresh session, request that must refresh, logout, crafted callback, Kubernetes Secret reconcile, CA-file rewrite "
             "under a millisecond-interval watcher, TLS configuration load) on 1-2 filters with static and discovered endpoints, static and fetched keys, memory and Redis, inline and Kubernetes client "
             "secrets, plain and TLS providers; -race build with statement-level yields and simulator mutexes in memory.go, discovery.go, tls.go, file.go; uniform and priority scheduling; "
             "oracle = ThreadSanitizer reports canonicalised to the pair of innermost authservice functions, fatal concurrent map access, completion of all tasks within the budget; "
             "a planted-race positive control and a locked negative control run at the start of every worker; non-trivial = at least two task kinds overlapped; distinct = schedule trace",
             {"runs": 1500, "budget_s": 45}, {"runs": 150000, "budget_s": 900}, race=True, instr=True, no_shrink=True,
             must={"all": ["task-kind-pairs-overlapped"]}),
}


def race_violations(outs, prop):
    return {}

SIM_NOTE = ("Trusted base: Go 1.26.8 testing/synctest, the simulator (seeded scheduler, in-memory network, store/JWKS seam wrappers), the strict IdP model with "
            "std-lib JOSE, miniredis, the reference oracles. Evidence over sampled plans, not proof. Envoy, browsers, IdP, Redis server and Kubernetes are stubs.")

def T(technique, level_text, note=""):
    return {"technique": technique, "level_text": level_text, "level_note": SIM_NOTE + (" " + note if note else "")}


MANIFEST_TEXT = {
    "C01": T("deterministic simulation with fault injection: seeded request/attacker/clock histories + systematic single and pair fault sweep over every store, token-endpoint and key-source call (for Redis also every command position inside a store call: torn writes), Envoy giving up (request context cancelled), crash-restart at seam calls, 1-3 replicas sharing Redis; ledger-based justification oracle",
             "Every OK verdict of every simulated run must be justified by ground truth: a session under the presented cookie whose ID token the provider's ledger issued and which is unexpired, or a "
             "successful refresh exchange caused by this very check; any injected failure inside a check forbids OK. fault_enumeration: besides random faults, a scenario through every seam is recorded and "
             "re-run once per seam call x fault kind (before/after effect) and for sampled pairs (all recorded singles; 40/400 pairs per scenario in quick/thorough).",
             "Sites are I/O boundaries (store methods, token endpoint, JWKS lookup); faults inside jwx or net/http are represented by their observable result at the seam."),
    "C02": T("deterministic simulation with a Byzantine identity provider (adversarial token grammar) + independent std-lib JOSE re-verification of every bound/stored/forwarded token",
             "Histories mix honest and forged token answers on login and refresh paths; every token handed to SetTokenResponse, every token found in the store afterwards and every forwarded header is "
             "re-verified without jwx (signature under the provider's keys, audience, login nonce, membership in the provider's ledger). Exploration over a 33-production grammar; decides acceptance only for the sampled grammar."),
    "C03": T("deterministic simulation: seeded configurations x IdP behaviours x URLs, redirect-following browser, bounded-liveness oracle (step budget); recovery after injected faults stop; stalled provider answers",
             "Seeded exploration of the composed login flow (real loader, handler, stores, HTTP client against a strict IdP model) on a fake clock: every run must reach OK in exactly redirect/callback/OK "
             "with one authorization request, byte-identical return URL and the provider's tokens, and stay OK inside token lifetime. The boolean core of the configuration x provider product is enumerated by index, the rest drawn. "
             "Recovery mode: after a fault-injecting prelude the faults stop and every browser must complete one pass of login (the provider is compliant towards it throughout). Stall mode: a provider answer of another request stays outstanding; "
             "a real-time watchdog outside the bubble releases it if the login under test makes no progress for 15 s, and the run reports that."),
    "C04": T("deterministic simulation with a seeded scheduler: concurrent logins and crafted callbacks interleaved at store-call / token-endpoint granularity; strict RFC 6749/7636 monitor at the token endpoint",
             "Every token request is judged against the session registry the monitor built from the redirects it saw (state, S256 challenge, redirect URI, client credentials of the session named by the cookie); "
             "a completed login forbids any later exchange under that session. Exploration over schedules and attacker choices."),
    "C05": T("deterministic simulation: histories presenting every class of session id; independent RFC 6265 Set-Cookie parser; store spy",
             "Monitors on every response and store write: fresh never-seen session id on every login redirect, presented session destroyed, tokens only under issued ids, cookie attributes, logout expiry. Exploration."),
    "C06": T("deterministic simulation of the disclosed input (the request instant): replay divergence, same-instant logins, time-window attacker with a fresh replica per candidate instant",
             "Black-box on Check: identical simulated clock and inputs must still give different identifiers; k logins at one frozen instant must differ; an attacker who knows the request time to +-w ns and tries "
             "every candidate instant must not reproduce the victim's identifiers. Exploration; claimed in part.",
             "The static clause of the property (every code path in the shipped sources, call graph to an entropy source) is NOT decided: it is a static-analysis question outside this technique. "
             "A generator with a hidden but small seed space is not detectable black-box."),
    "C09": T("deterministic simulation with a seeded scheduler (uniform and priority policies): logout raced against 1-2 checks on the same session at store-call and token-endpoint granularity; fault injection on session removal; requests spread over 1-3 replicas sharing Redis",
             "Verdicts are ordered against the completion of the logout response by global event sequence numbers; any check invoked after it, and any in-flight refresh finishing after it, must not be OK; "
             "a failed removal must yield an error answer. Exploration over schedules; determinism self-test (GOMAXPROCS 1/4/16)."),
    "C10": T("deterministic simulation on a fake clock: store-level histories against a timeout model (memory store, two Redis store instances on miniredis) and system-level probes through the start-up wiring (tokens that stay fresh, or that are refreshed several times inside the absolute limit), crash-restart with Redis",
             "Reads on either side of each limit (limit +-2 s, fractions, multiples) for all (absolute, idle) pairs from an 8-value grid incl. 0; one second of granularity tolerated; definite vs possible uses tracked separately so that only what the statement promises is demanded. Exploration.",
             "The replica is assembled by the same constructors in the same order as cmd/main.go (hand-mirrored, not generated from main.go): a sweeper registered as a NEW run.Group unit in main.go would not be seen."),
    "C11": T("deterministic simulation over many token lifetimes against a provider with a refresh-token ledger (rotation, omitted members, key rollover with and without caching headers on the key endpoint, denial, forged answers, lost replies, Envoy giving up mid-refresh), 1-3 replicas sharing Redis",
             "Every refresh exchange is checked against the ledger (most recently issued refresh token, well-formed grant, credentials); a successful exchange must yield OK with the merged result in headers and store, "
             "a failed one must end the session and send the browser to login. Key rollover windows in which both outcomes are legitimate are not judged. Exploration."),
    "C12": T("deterministic simulation: sequential refinement of memory and Redis stores against a plain-map model with Redis command faults and crashes between commands (a MULTI/EXEC transaction is one command); concurrent memory-store histories, with and without session timeouts configured on an aged store, checked for linearizability (porcupine); a runtime-fatal error of the worker is a verdict",
             "Return values and complete ground-truth store content are compared with the model after every operation; interrupted Redis methods are judged with a narrow prefix-of-writes relaxation; "
             "concurrent histories (statement-level pre-emption, also inside critical sections) must be linearizable. Exploration; porcupine Unknown is counted inconclusive, never reported."),
    "C13": T("deterministic simulation: the redirect is the message to the next node; strict provider-side parser with an independent splitter/decoder judges every Location; byte-for-byte return URL",
             "Configurations drawn for URL well-formedness (reserved, space, percent, non-ASCII characters in client ids, scopes, callback and authorization URIs with and without own query). Exploration.",
             "The first clause is a function of (configuration, generated values); it is claimed because in the simulated protocol a malformed redirect stalls the multi-party run."),
    "C14": T("deterministic simulation with fault injection: unique-marker secrets searched in every answer of fault-injecting, concurrent and refresh histories (raw, URL-decoded, base64-decoded)",
             "Every secret the run creates (client secret, PKCE verifiers captured at the store seam, every token the provider's ledger issues) is a unique marker; no marker may occur in any denial/redirect; OK answers may add only the configured token headers. Exploration."),
    "C15": T("deterministic simulation with malformed-peer fault kinds: hostile CheckRequests, token-endpoint/JWKS/discovery bodies from a JSON grammar, claims of unexpected type, lying and corrupted store; recover() oracle",
             "A panic anywhere under Check is the violation (no recovery interceptor exists in the service); verdicts must be well-formed. Exploration over an enumerated grammar (each production indexed by the plan index).",
             "Coverage-guided mutation is a different technique and is not used; requests enter through ExtAuthZFilter.Check, not through the gRPC server. A panic in a background goroutine of a dependency would surface as a worker crash (exit 2), not as a replayable violation."),
    "C16": T("deterministic simulation in a -race build: ThreadSanitizer under a seeded, serial, TSan-transparent (sleep-based) schedule with statement-level yields and simulator mutexes; completion/deadlock oracle (simulator-mutex step budget; out-of-bubble watch for checks stuck on a service lock); runtime-fatal errors are verdicts",
             "4-12 concurrent tasks of every request kind plus Secret reconcile, CA-file rewrite and TLS-config load; race reports are canonicalised to the pair of innermost authservice functions; a planted-race positive control and "
             "a locked negative control run at the start of every worker. Exploration over schedules.",
             "TSan keeps a bounded access history; the token-endpoint model uses a mutex, which can order some accesses of different tasks (schedule-dependent, mitigated by exploring many schedules). JWKS background refresh is not overlapped with checks."),
    "C18": T("deterministic simulation: 2-3 filters over eight store topologies (one with a Redis server unreachable while the service starts, one with discovered end-session endpoints), written as separate oidc blocks or as default_oidc_config plus per-chain overrides; sessions of one filter presented to the others; concurrent logins at all filters; per-filter limit probes on the fake clock",
             "OK verdicts are attributed to the filter whose redirect issued the session; forwarded tokens must verify under the judging filter's keys and audience; token requests must reach the judging filter's provider with its credentials; "
             "each filter's own limits are probed 2 s before/after. Exploration."),
    "C19": T("deterministic simulation: the simulator plays the Kubernetes API server (fake client whose reads can fail) and manager (re-queues a reconcile that returned an error), delivering reconciles with duplication, delay and reordering, interleaved with logins and refreshes, and racing a rotation against a callback in flight under the seeded scheduler",
             "Reference map secret name -> last non-empty value at a completed reconcile; judged at the token endpoint (both grant types) and on every filter's configuration after each reconcile; cross-namespace references must be refused at start-up. Exploration.",
             "The namespace and client are injected through an export shim instead of PreRun's in-cluster discovery; loadSecrets and Reconcile are the real code."),
    "C20": T("deterministic simulation: real TLS handshakes over in-memory connections against a test PKI, real TLS pool + file watcher on the fake clock, CA-file rewrite/torn/delete faults incl. an outage of several polls followed by a rotation, concurrent first loads in the instrumented build",
             "Independent expectation from crypto/x509 and the file content as of the last poll; probes between a rewrite and the next poll, or at a poll instant, are not judged; superseded watchers must stop; identical settings must share one configuration. Exploration."),
}

PENDING = "check not built yet in this round (planned, see DESIGN.md §6)"
NOT_APPLICABLE = {
    "C07": "pure function of (rule set, request target): no schedule, clock, fault or second party for a simulator to control; input enumeration is a different technique (DESIGN.md §7). Side coverage only through C01/C03 worlds whose targets carry queries.",
    "C08": "pure function of (chain list, flag, headers): no schedule, clock, fault or interleaving (DESIGN.md §7). Multi-chain worlds are exercised by C18/C01 but the bounded-exhaustive quantifier is not what simulation samples.",
    "C17": "pure function of the configuration file content (one read, no concurrency, no time): grammar/mutation-based input generation is a different technique (DESIGN.md §7). Every simulated run boots through the real loader as side coverage.",
}
for _p in ["C01", "C02", "C04", "C05", "C06", "C09", "C10", "C11", "C12", "C13", "C14", "C15", "C16", "C18", "C19", "C20"]:
    if _p not in PROPS:
        NOT_APPLICABLE[_p] = PENDING
