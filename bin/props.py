"""Static per-property settings of the driver: budgets, evidence texts, probes that must fire."""

REAL = ["server.ExtAuthZFilter.Check", "authz.oidcHandler", "oidc.memoryStore", "oidc.redisStore", "oidc.sessionStoreFactory (PreRun)",
        "oidc.DefaultJWKSProvider + jwx jwk.Cache", "internal.LocalConfigFile.Validate (config file on disk)", "internal.TLSConfigPool",
        "inthttp.NewHTTPClient", "net/http client+server", "go-redis client"]
STUB = ["Envoy (CheckRequests built by the simulator)", "browsers / attacker (simulator agents)", "identity provider (strict executable model, std-lib JOSE)",
        "Redis server (miniredis, clock slaved to the bubble)", "OS clock (testing/synctest fake clock)", "network (in-memory pipes)"]
COMPONENTS = {"real": REAL, "stub": STUB}
ASSUME = ["Go 1.26.8 testing/synctest fake clock and quiescence detection", "miniredis fidelity for HSET/HSETNX/HMSET/HMGET/HGET/HDEL/DEL/EXPIREAT/PING",
          "the strict IdP model and std-lib JOSE verifier are the reference for the peer", "sampling: a clean batch is evidence over the sampled plans, not proof"]


def P(rule, quick, thorough, level="exploration", must=None, **kw):
    d = {"rule": rule, "quick": quick, "thorough": thorough, "level": level, "components": COMPONENTS, "assumptions": ASSUME, "must_probe": must or {}}
    d.update(kw)
    return d


PROPS = {
    "C03": P("plans = (filter configuration x compliant IdP behaviour x requested URL x follow-up requests inside token lifetime), the index enumerating the boolean "
             "cross product (expires_in present, access-token forwarding, refresh none/static/rotate, aud array, extra members, memory/Redis) with the rest drawn from the seed; "
             "non-trivial = the login completed; distinct = distinct (configuration shape, provider shape, history length)",
             {"runs": 6000, "budget_s": 25}, {"runs": 400000, "budget_s": 600}, must={"all": ["login-completed", "further-requests-ok"]}),
}


def race_violations(outs, prop):
    return {}
