#!/usr/bin/env python3
"""Batch: verify each seeded change, then run the checks against it on /repo (apply, check, undo)."""
import json, os, subprocess, sys, glob
sys.path.insert(0, "/verif/bin")
import seedtool
from props import PROPS

out = open("/tmp/mut/results.jsonl", "a")
dirs = sys.argv[1:] or sorted(glob.glob("/tmp/mut/C*/[ab]"))
done = set()
if os.path.exists("/tmp/mut/results.jsonl"):
    for l in open("/tmp/mut/results.jsonl"):
        try:
            done.add(json.loads(l)["dir"])
        except Exception:
            pass
for d in dirs:
    if d in done or not os.path.exists(os.path.join(d, "meta.json")):
        continue
    prop = d.split("/")[-2]
    rec = {"dir": d, "prop": prop}
    try:
        v = seedtool.verify(d)
    except Exception as e:
        v = {"ok": False, "error": str(e)}
    rec["verify"] = v
    if v.get("ok"):
        order = [prop] + [p for p in sorted(PROPS) if p != prop]
        res = {}
        caught = []
        for p in order:
            if p not in PROPS:
                continue
            r = seedtool.try_patch(os.path.join(d, "patch.diff"), [p])
            if isinstance(r, dict):
                res.update(r)
                if r[p]["rc"] == 1:
                    caught.append(p)
            # stop early once the target property and one more pass have been evaluated and something caught it
            if caught and p != prop and len(res) >= 3:
                break
        rec["checks"] = res
        rec["caught_by"] = caught
    out.write(json.dumps(rec) + "\n")
    out.flush()
    print(d, "verified" if v.get("ok") else "NOT-VERIFIED", "caught_by", rec.get("caught_by"), flush=True)
