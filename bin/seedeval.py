#!/usr/bin/env python3
"""Run selected quick checks against each seeded change in a scratch worktree (VERIF_REPO), never touching /repo."""
import json, os, subprocess, sys, glob, time
WT = "/tmp/wt/E"
def sh(cmd, cwd=None, env=None, timeout=3600):
    r = subprocess.run(cmd, shell=True, cwd=cwd, env=env, capture_output=True, text=True, timeout=timeout)
    return r.returncode, r.stdout + r.stderr
RELATED = {"C01": ["C01", "C11"], "C02": ["C02", "C01", "C11"], "C03": ["C03", "C10", "C02"], "C04": ["C04", "C03", "C05"], "C05": ["C05", "C11", "C01"], "C06": ["C06", "C05", "C15"],
           "C09": ["C09", "C01"], "C10": ["C10", "C18"], "C11": ["C11", "C01"], "C12": ["C12", "C10", "C16"], "C13": ["C13", "C16", "C03"], "C14": ["C14", "C02", "C11"], "C15": ["C15", "C01"],
           "C16": ["C16", "C12"], "C18": ["C18", "C11", "C03"], "C19": ["C19"], "C20": ["C20", "C18"]}
dirs = sys.argv[1:] or sorted(glob.glob("/tmp/mut/C*/[ab]"))
out = open("/tmp/mut/eval.jsonl", "a")
for d in dirs:
    prop = d.split("/")[-2]
    sh("git reset -q --hard; git checkout -q --detach $(git -C /repo rev-parse HEAD) && git reset -q --hard && git clean -fdq", cwd=WT)
    rc, o = sh("git apply --3way %s/patch.diff" % d, cwd=WT)
    rec = {"dir": d, "prop": prop, "applies": rc == 0, "checks": {}}
    if rc != 0:
        rec["apply_err"] = o[-300:]
    else:
        env = dict(os.environ, VERIF_REPO=WT)
        for p in RELATED.get(prop, [prop]):
            t0 = time.time()
            rc, o = sh("python3 /verif/bin/check %s --tier quick" % p, cwd="/verif", env=env)
            viol = [l[:220] for l in o.split("\n") if l.startswith("violation:")]
            rec["checks"][p] = {"rc": rc, "wall": round(time.time() - t0), "viol": viol[:4], "infra": o[-400:] if rc == 2 else ""}
            if rc == 1 and p == prop:
                break
    rec["caught_by"] = [p for p, v in rec["checks"].items() if v["rc"] == 1]
    out.write(json.dumps(rec) + "\n"); out.flush()
    print(d, "caught_by", rec["caught_by"], {p: v["rc"] for p, v in rec["checks"].items()}, flush=True)
    sh("git reset -q --hard && git clean -fdq", cwd=WT)
