#!/usr/bin/env python3
"""Final confirmation of the seeded changes: verify each in a scratch worktree, then apply it to /repo itself,
run the quick checks, undo it straight afterwards, and write seeded/<id>/{patch.diff,demo_test.go,meta.json}."""
import json, os, shutil, subprocess, sys, glob, time
sys.path.insert(0, "/verif/bin")
import seedtool

RELATED = {"C01": ["C01", "C11"], "C02": ["C02", "C11", "C01"], "C06": ["C06", "C16", "C05"], "C13": ["C13", "C16"], "C03": ["C03", "C10"], "C04": ["C04", "C01"], "C05": ["C05", "C11"],
           "C12": ["C12", "C10"], "C14": ["C14", "C11"], "C18": ["C18", "C11"],
           "C09": ["C09", "C18"], "C10": ["C10", "C18"], "C11": ["C11"], "C15": ["C15"],
           "C16": ["C16", "C20"], "C19": ["C19"], "C20": ["C20"]}
CHECKS = json.load(open(os.environ["SEED_CHECKS"])) if os.environ.get("SEED_CHECKS") else {}
NOTES = json.load(open("/verif/seeded/notes.json")) if os.path.exists("/verif/seeded/notes.json") else {}

def sh(cmd, cwd=None, timeout=3600):
    r = subprocess.run(cmd, shell=True, cwd=cwd, capture_output=True, text=True, timeout=timeout)
    return r.returncode, r.stdout + r.stderr

def repo_clean():
    rc, o = sh("git -C /repo status --porcelain")
    return o.strip() == ""

dirs = [a for a in sys.argv[1:] if not a.startswith("--")] or sorted(glob.glob("/tmp/mut/C*/[ab]"))
for d in dirs:
    prop, var = d.split("/")[-2], d.split("/")[-1]
    if "/mut2/" in d:
        var = {"a": "c", "b": "d"}[var]  # second wave
    if "/mut3/" in d:
        var = {"a": "e", "b": "f"}[var]  # third wave (fault / interleaving / restart / clock triggered)
    if "/mut5/" in d:
        var = {"a": "i", "b": "j"}[var]  # fifth (small) wave: six properties, "something none of the earlier eight resembles"
    if "/mut6/" in d:
        var = {"a": "k", "b": "l"}[var]  # sixth wave (round 3): "resemble none of the earlier ideas: different code site AND different mechanism"
    if "/mut7/" in d:
        var = {"a": "l"}[var]  # seventh wave (round 3; the five properties wave 6 left out, same instructions)
    if "/mut4/" in d:
        var = {"a": "g", "b": "h"}[var]  # fourth wave (less obvious sites: config merging, helpers, server layer, wiring)
    sid = prop + var
    dst = "/verif/seeded/" + sid
    if os.path.exists(os.path.join(dst, "meta.json")) and "--force" not in sys.argv:
        continue
    meta = json.load(open(os.path.join(d, "meta.json")))
    if os.path.exists(os.path.join(d, "verify.json")):
        v = json.load(open(os.path.join(d, "verify.json")))  # confirmed beforehand (seedtool.py verify, own scratch worktree)
    else:
        v = seedtool.verify(d)
    rec = {"id": sid, "property": prop, "summary": meta.get("summary"), "needs": meta.get("needs"), "files_changed": meta.get("files_changed"),
           "demo_place_at": meta.get("demo_place_at"), "demo_cmd": meta.get("demo_cmd"), "confirmed": v, "checks_run": {}, "caught_by": []}
    if v.get("ok"):
        assert repo_clean(), "/repo not clean"
        try:
            rc, o = sh("git -C /repo apply --3way %s/patch.diff" % d)
            if rc != 0:
                rec["apply_error"] = o[-300:]
            else:
                sh("git -C /repo reset -q")  # keep the change in the working tree only
                for p in CHECKS.get(d) or RELATED.get(prop, [prop]):
                    t0 = time.time()
                    rc, o = sh("python3 /verif/bin/check %s --tier quick" % p, cwd="/verif")
                    viol = [l[:300] for l in o.split("\n") if l.startswith("violation:")]
                    rec["checks_run"][p] = {"cmd": "git -C /repo apply patch.diff; python3 bin/check %s --tier quick; git -C /repo checkout -- ." % p, "exit": rc, "wall_s": round(time.time() - t0), "violations": viol[:4]}
                    if rc == 1:
                        rec["caught_by"].append(p)
                        break
        finally:
            sh("git -C /repo reset -q --hard && git -C /repo clean -fdq")
    if sid in NOTES:
        rec["note"] = NOTES[sid]
    os.makedirs(dst, exist_ok=True)
    shutil.copy(os.path.join(d, "patch.diff"), dst)
    shutil.copy(os.path.join(d, "demo_test.go"), os.path.join(dst, "demo_test.go.txt"))
    json.dump(rec, open(os.path.join(dst, "meta.json"), "w"), indent=1)
    print(sid, "confirmed" if v.get("ok") else "NOT-CONFIRMED", "caught_by", rec["caught_by"], flush=True)
