#!/usr/bin/env python3
"""Regenerates seeded/README.md from seeded/<id>/meta.json."""
import glob, json, os
rows = []
for mp in sorted(glob.glob("/verif/seeded/*/meta.json")):
    m = json.load(open(mp))
    caught = ", ".join(m.get("caught_by") or []) or "—"
    if m.get("note") and not m.get("caught_by"):
        caught = "— (see note in meta.json)"
    if m.get("caught_note"):
        caught += " (" + m["caught_note"] + ")"
    def cell(s, n):
        return (s or "").replace("|", "\\|").replace("\n", " ")[:n]
    rows.append("| %s | %s | %s | %s | %s | %s |" % (m["id"], m["property"], cell(m.get("summary"), 110), cell(m.get("needs"), 90), "yes" if (m.get("confirmed") or {}).get("ok") else "NO", caught))
head = """# Seeded changes

Written by independent sub-agents from the property text alone, each in its own scratch worktree. First wave: ids ending in a/b. Second wave (told to avoid the first wave's ideas and to break the property through `ExtAuthZFilter.Check`): c/d. Third wave (told to prefer changes that only manifest under a fault at a particular point, a particular interleaving, a restart or second replica, or a clock condition): e/f. Fourth wave (told to look for a second, less obvious place the property depends on - configuration merging, cookie/header helpers, server layer, start-up wiring, logging - and to stay inside the property's quantifier): g/h. Fifth, small wave (six properties; told to find something none of the earlier eight resembles - boundaries, time arithmetic, string handling, aliasing, ordering): i/j. Sixth wave (round 3; twelve properties, one change each; told which ideas had been used for the property and to resemble none of them - different code site AND different mechanism): k; the five properties that wave left out, same instructions: l. Each was confirmed here (applies, builds, existing tests pass, demonstration fails with it and passes without), then applied to /repo, quick checks run, undone. `meta.json` in each directory has the commands and the violations reported. `demo_test.go.txt` is the demonstration (suffix .txt so that nothing builds it).

| id | property | what the change does | what it needs to manifest | confirmed | caught by |
|---|---|---|---|---|---|
"""
open("/verif/seeded/README.md", "w").write(head + "\n".join(rows) + "\n")
print(len(rows), "rows;", sum(1 for r in rows if r.rstrip().endswith("— |") or "see note" in r), "not caught")
