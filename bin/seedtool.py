#!/usr/bin/env python3
"""Maintenance tool for seeded changes (not part of any registered check).

  seedtool.py verify <mutdir>            confirm in a scratch worktree: patch applies, builds, existing tests pass,
                                         demo fails with the patch and passes without it
  seedtool.py try <patch.diff> [props]   apply the patch to /repo, run the quick checks, ALWAYS revert /repo
"""
import json, os, re, subprocess, sys, time

ENV = dict(os.environ, GOFLAGS="-mod=mod", GOPROXY="off", GOSUMDB="off", GOTOOLCHAIN="local",
           PATH="/root/go/pkg/mod/golang.org/toolchain@v0.0.1-go1.24.2.linux-amd64/bin:" + os.environ["PATH"])
WT = os.environ.get("SEED_WT", "/tmp/wt/V")


def sh(cmd, cwd=None, timeout=1800):
    r = subprocess.run(cmd, shell=True, cwd=cwd, env=ENV, capture_output=True, text=True, timeout=timeout)
    return r.returncode, (r.stdout + r.stderr)


def verify(mutdir):
    meta = json.load(open(os.path.join(mutdir, "meta.json")))
    patch = os.path.join(mutdir, "patch.diff")
    demo = os.path.join(mutdir, "demo_test.go")
    head = open(demo).read().split("\n")[:4]
    place = meta.get("demo_place_at") or [l.split("place at:")[1].strip() for l in head if "place at:" in l][0]
    cmd = meta.get("demo_cmd") or [l.split("run:")[1].strip() for l in head if "run:" in l][0]
    cmd = re.sub(r"cd \S+ &&", "", cmd).strip()
    if not os.path.isdir(WT):
        sh("git -C /repo worktree add -q --detach %s HEAD" % WT)
    sh("git reset -q --hard; git checkout -q --detach $(git -C /repo rev-parse HEAD) && git reset -q --hard && git clean -fdq", cwd=WT)
    out = {"dir": mutdir}
    dst = os.path.join(WT, place)
    os.makedirs(os.path.dirname(dst), exist_ok=True)
    # without the patch: demo passes
    sh("cp %s %s" % (demo, dst))
    rc, o = sh(cmd, cwd=WT)
    out["demo_without_patch"] = "pass" if rc == 0 else "FAIL"
    os.remove(dst)
    rc, o = sh("git apply --3way %s && git reset -q" % patch, cwd=WT)
    out["apply"] = rc == 0
    if rc != 0:
        out["apply_err"] = o[-300:]
        return out
    rc, o = sh("go build ./...", cwd=WT)
    out["build"] = rc == 0
    rc, o = sh("go test -count=1 ./internal/... 2>&1 | grep -E '^(--- FAIL|FAIL|ok)'", cwd=WT)
    fails = [l for l in o.split("\n") if l.startswith("--- FAIL")]
    allowed = ("TestManagerStarts", "TestManagerNotInitializedIfNothingToWatch")
    out["existing_tests"] = "pass" if all(any(a in f for a in allowed) for f in fails) else "FAIL: " + "; ".join(fails)
    sh("cp %s %s" % (demo, dst))
    rc, o = sh(cmd, cwd=WT)
    out["demo_with_patch"] = "fails" if rc != 0 else "PASSES"
    sh("git reset -q --hard && git clean -fdq", cwd=WT)
    out["ok"] = out["demo_without_patch"] == "pass" and out["build"] and out["existing_tests"] == "pass" and out["demo_with_patch"] == "fails"
    return out


def try_patch(patch, props):
    rc, o = sh("git -C /repo status --porcelain")
    if o.strip():
        print("refusing: /repo is not clean:\n" + o)
        return 2
    res = {}
    try:
        rc, o = sh("git -C /repo apply %s" % patch)
        if rc != 0:
            print("patch does not apply: " + o)
            return 2
        for p in props:
            t0 = time.time()
            rc, o = sh("python3 /verif/bin/check %s --tier quick" % p, cwd="/verif", timeout=3600)
            viol = [l for l in o.split("\n") if l.startswith("VIOLATION") or l.startswith("violation:")]
            res[p] = {"rc": rc, "wall": round(time.time() - t0), "viol": [v[:260] for v in viol[:6]]}
            if rc == 2:
                res[p]["infra"] = o[-600:]
            print(p, json.dumps(res[p]), flush=True)
    finally:
        sh("git -C /repo checkout -- . && git -C /repo clean -fdq")
    return res


if __name__ == "__main__":
    if sys.argv[1] == "verify":
        print(json.dumps(verify(sys.argv[2]), indent=1))
    elif sys.argv[1] == "try":
        sys.path.insert(0, "/verif/bin")
        from props import PROPS
        props = sys.argv[3:] or sorted(PROPS)
        try_patch(sys.argv[2], props)
