for i in 1 2; do echo "== thorough C03 ($i)"; VERIF_REPO=$VP_RUN_REPO python3 bin/check C03 --tier thorough --seed $i 2>&1 | grep -v "^KNOWN" | tail -12 | cut -c1-1500; done
for p in C16 C01 C04; do echo "== thorough $p"; VERIF_REPO=$VP_RUN_REPO python3 bin/check $p --tier thorough 2>&1 | grep -v "^KNOWN" | tail -6 | cut -c1-600; done
