echo "== thorough C03 (seed 1)"; VERIF_REPO=$VP_RUN_REPO python3 bin/check C03 --tier thorough --seed 1 2>&1 | grep -v "^KNOWN" | tail -120 | cut -c1-400
