for i in 1 2 3; do echo "== thorough C03 (seed 1, attempt $i)"; VERIF_REPO=$VP_RUN_REPO python3 bin/check C03 --tier thorough --seed 1 2>&1 | grep -v "^KNOWN" | tail -100 | cut -c1-300; done
