for p in C09 C01 C14 C05 C11; do echo "== thorough $p"; VERIF_REPO=$VP_RUN_REPO python3 bin/check $p --tier thorough 2>&1 | grep -v "^KNOWN" | tail -4 | cut -c1-400; done
