//go:build verif

package k8s

import "sigs.k8s.io/controller-runtime/pkg/client"

// VerifSetup injects the namespace and the (fake) client the way PreRun would have obtained them
// in-cluster, and runs the real secret-collection step.
func (s *SecretController) VerifSetup(namespace string, c client.Client) error {
	s.namespace = namespace
	s.k8sClient = c
	return s.loadSecrets()
}
