//go:build verif

package k8s

import (
	"strings"

	"k8s.io/client-go/rest"
	"sigs.k8s.io/controller-runtime/pkg/client"
)

// VerifSetup runs the controller's real start-up step (PreRun: the scan for filters that reference a Secret, the
// collection of those references with the cross-namespace check, the creation of the manager and the registration of
// the controller) with the two things it would take from the cluster injected: the namespace and a REST configuration
// (never contacted: the manager is not started). The (fake) API client then replaces the manager's.
func (s *SecretController) VerifSetup(namespace string, c client.Client) error {
	s.namespace = namespace
	s.restConf = &rest.Config{Host: "http://127.0.0.1:1"}
	if err := s.PreRun(); err != nil && !(s.manager != nil && strings.Contains(err.Error(), "already exists")) {
		// (controller-runtime keeps a process-wide registry of controller names: from the second simulated start-up
		// of a worker process on, the very last step of PreRun - registering the controller - is refused. Everything
		// before it has run.)
		return err
	}
	if s.manager != nil {
		s.k8sClient = c
	}
	return nil
}

// VerifWatching reports whether PreRun registered the controller with a manager, i.e. whether reconcile requests
// would ever be delivered in a deployment.
func (s *SecretController) VerifWatching() bool { return s.manager != nil }
