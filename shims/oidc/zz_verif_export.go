//go:build verif

package oidc

import "time"

// Export shims for the simulator (/verif). Mapped into this package by `go -overlay` at check time
// only; never present in the repository.

// VerifResetDiscovery clears the process-global discovery cache between simulated runs.
func VerifResetDiscovery() { clear(wellKnownConfigs) } // (whatever the element type of the cache is)

// VerifMemSession is a ground-truth snapshot of one in-memory session.
type VerifMemSession struct {
	Tokens   *TokenResponse
	State    *AuthorizationState
	Added    time.Time
	Accessed time.Time
}

// VerifPeekMemory reads a session without touching its access time. isMem is false when s is not the
// in-memory store.
func VerifPeekMemory(s SessionStore, id string) (snap *VerifMemSession, isMem bool) {
	m, ok := s.(*memoryStore)
	if !ok {
		return nil, false
	}
	se := m.sessions[id]
	if se == nil {
		return nil, true
	}
	return &VerifMemSession{Tokens: se.tokenResponse, State: se.authorizationState, Added: se.added, Accessed: se.accessed}, true
}

// VerifMemoryIDs lists the ids held by the in-memory store.
func VerifMemoryIDs(s SessionStore) []string {
	m, ok := s.(*memoryStore)
	if !ok {
		return nil
	}
	ids := make([]string, 0, len(m.sessions))
	for id := range m.sessions {
		ids = append(ids, id)
	}
	return ids
}

// VerifIsRedis reports whether s is the Redis store.
func VerifIsRedis(s SessionStore) bool {
	_, ok := s.(*redisStore)
	return ok
}
