//go:build verif

package verifsim

import (
	"net/http"
	"sort"
	"strconv"
	"strings"
	"time"
)

// Browser is a user agent that keeps cookies per host and follows redirects.
type Browser struct {
	ID   int
	Jar  map[string]map[string]string    // host -> name -> value
	Exp  map[string]map[string]time.Time // host -> name -> end of the cookie's lifetime (Max-Age / Expires), if it has one
	Hdr  map[string]string               // extra request headers (chain selection)
	w    *World
	Hops int
	// Noise: other cookies sent in front of the jar's (raw text, may contain valueless crumbs)
	Noise string
	// Scheme as reported by Envoy for this client's requests ("" = https)
	Scheme string
}

func (b *Browser) scheme() string {
	if b.Scheme != "" {
		return b.Scheme
	}
	return "https"
}

func (w *World) NewBrowser(id int) *Browser {
	return &Browser{ID: id, Jar: map[string]map[string]string{}, Hdr: map[string]string{}, w: w}
}

func (b *Browser) cookieHeader(host string) string {
	b.purge(host)
	jar := b.Jar[host]
	names := make([]string, 0, len(jar))
	for n := range jar {
		names = append(names, n)
	}
	sort.Strings(names)
	var parts []string
	for _, n := range names {
		parts = append(parts, n+"="+jar[n])
	}
	own := strings.Join(parts, "; ")
	if b.Noise != "" && own != "" {
		return b.Noise + "; " + own
	}
	return own
}

// purge drops the cookies of host whose Max-Age / Expires has passed on the simulated clock (a user agent that honours
// cookie lifetimes: a session cookie with a lifetime of its own ends the browser's session when it runs out, whatever
// the store still holds).
func (b *Browser) purge(host string) {
	now := time.Now()
	for n, t := range b.Exp[host] {
		if !now.Before(t) {
			delete(b.Exp[host], n)
			delete(b.Jar[host], n)
			b.w.probe("browser-cookies-expired-by-lifetime")
		}
	}
}

// SessionCookie is the value of the named cookie the browser would send to host now.
func (b *Browser) SessionCookie(host, name string) string {
	b.purge(host)
	return b.Jar[host][name]
}

// ParsedCookie is the result of an independent RFC 6265 Set-Cookie parse.
type ParsedCookie struct {
	Name, Value string
	Attrs       map[string]string // lower-cased attribute name -> value ("" for flags)
	AttrOrder   []string
	Malformed   string
}

func parseSetCookie(v string) *ParsedCookie {
	pc := &ParsedCookie{Attrs: map[string]string{}}
	parts := strings.Split(v, ";")
	nv := strings.TrimSpace(parts[0])
	n, val, ok := strings.Cut(nv, "=")
	if !ok || n == "" {
		pc.Malformed = "no name=value pair"
		return pc
	}
	pc.Name, pc.Value = n, val
	for _, c := range n {
		if c <= 0x20 || c >= 0x7f || strings.ContainsRune("()<>@,;:\\\"/[]?={}", c) {
			pc.Malformed = "cookie name is not an RFC 6265 token"
		}
	}
	for _, c := range val {
		if c <= 0x20 || c >= 0x7f || strings.ContainsRune("\",;\\", c) {
			pc.Malformed = "cookie value contains characters outside cookie-octet"
		}
	}
	for _, a := range parts[1:] {
		a = strings.TrimSpace(a)
		if a == "" {
			continue
		}
		k, av, _ := strings.Cut(a, "=")
		k = strings.ToLower(strings.TrimSpace(k))
		if _, dup := pc.Attrs[k]; dup {
			pc.Malformed = "duplicate attribute " + k
		}
		pc.Attrs[k] = strings.TrimSpace(av)
		pc.AttrOrder = append(pc.AttrOrder, k)
	}
	return pc
}

func (b *Browser) absorb(host string, rec *CheckRec) {
	for _, sc := range rec.SetCookie {
		pc := parseSetCookie(sc)
		if pc.Malformed != "" || pc.Name == "" {
			continue
		}
		if b.Jar[host] == nil {
			b.Jar[host] = map[string]string{}
		}
		if ma, ok := pc.Attrs["max-age"]; ok && (ma == "0" || strings.HasPrefix(ma, "-")) {
			delete(b.Jar[host], pc.Name)
			delete(b.Exp[host], pc.Name)
			continue
		}
		b.Jar[host][pc.Name] = pc.Value
		delete(b.Exp[host], pc.Name)
		// RFC 6265 5.3: Max-Age has precedence over Expires
		var exp time.Time
		if ma, ok := pc.Attrs["max-age"]; ok {
			if n, err := strconv.Atoi(ma); err == nil {
				exp = time.Now().Add(time.Duration(n) * time.Second)
			}
		} else if ex, ok := pc.Attrs["expires"]; ok {
			if t, err := http.ParseTime(ex); err == nil {
				exp = t
			}
		}
		if !exp.IsZero() {
			if b.Exp == nil {
				b.Exp = map[string]map[string]time.Time{}
			}
			if b.Exp[host] == nil {
				b.Exp[host] = map[string]time.Time{}
			}
			b.Exp[host][pc.Name] = exp
		}
	}
}

// Send performs one request with the browser's cookies; it does not follow redirects.
func (b *Browser) Send(label, scheme, host, path string) *CheckRec {
	hdr := map[string]string{}
	for k, v := range b.Hdr {
		hdr[k] = v
	}
	if c := b.cookieHeader(host); c != "" {
		hdr["cookie"] = c
	}
	rec := b.w.Check(b.ID, label, scheme, host, path, hdr)
	b.absorb(host, rec)
	return rec
}

func splitURL(u string) (scheme, host, path string, ok bool) {
	scheme, rest, ok := strings.Cut(u, "://")
	if !ok {
		return "", "", "", false
	}
	i := strings.IndexAny(rest, "/?#")
	if i < 0 {
		i = len(rest)
	}
	host = rest[:i]
	// user agents drop the default port from the authority
	if scheme == "https" {
		host = strings.TrimSuffix(host, ":443")
	} else if scheme == "http" {
		host = strings.TrimSuffix(host, ":80")
	}
	return scheme, host, rest[i:], true
}

// NavResult is what happened when a browser navigated to a URL following redirects.
type NavResult struct {
	Recs      []*CheckRec
	AuthReqs  []*AuthReq
	Final     *CheckRec
	Stuck     string // why navigation ended without OK ("" if OK)
	FirstURL  string
	AuthCount int
}

// Navigate requests a URL and follows redirects (through the IdP, which the browser "logs in" at)
// for at most maxHops requests.
func (b *Browser) Navigate(label, scheme, host, path string, maxHops int) *NavResult {
	res := &NavResult{FirstURL: scheme + "://" + host + path}
	for hop := 0; hop < maxHops; hop++ {
		rec := b.Send(label, scheme, host, path)
		res.Recs = append(res.Recs, rec)
		res.Final = rec
		switch rec.Class {
		case "ok":
			return res
		case "redirect-idp":
			f := b.w.filterForLocation(rec.Location)
			if f == nil {
				res.Stuck = "redirect to an unknown provider"
				return res
			}
			ar := f.Authorize(rec.Location, b.ID)
			res.AuthReqs = append(res.AuthReqs, ar)
			res.AuthCount++
			if ar.Code == "" {
				res.Stuck = "provider rejected the authorization request: " + sortedProblems(ar.Problems)
				return res
			}
			cs, ch, cp, _ := splitURL(f.Spec.CallbackURI())
			scheme, host = cs, ch
			// the provider appends code and state to the registered redirect URI
			path = cp + cbSep(cp) + "code=" + qEsc(ar.Code) + "&state=" + qEsc(ar.Param("state"))
			label = label + ">cb"
		case "redirect-url":
			s, h, p, ok := splitURL(rec.Location)
			if !ok {
				res.Stuck = "unparsable Location " + rec.Location
				return res
			}
			scheme, host, path = s, h, p
			label = label + ">back"
		default:
			res.Stuck = "ended with " + rec.Class
			return res
		}
	}
	res.Stuck = "redirect loop (hop budget exhausted)"
	return res
}

func qEsc(s string) string {
	var b strings.Builder
	for i := 0; i < len(s); i++ {
		c := s[i]
		if c >= 'a' && c <= 'z' || c >= 'A' && c <= 'Z' || c >= '0' && c <= '9' || c == '-' || c == '_' || c == '.' || c == '~' {
			b.WriteByte(c)
		} else {
			b.WriteString("%" + strings.ToUpper(string("0123456789abcdef"[c>>4])+string("0123456789abcdef"[c&15])))
		}
	}
	return b.String()
}

func (w *World) filterForLocation(loc string) *FilterRT {
	for _, f := range w.Filters {
		base, _, _ := strings.Cut(f.IdP.AuthorizeURL(), "?")
		if strings.HasPrefix(loc, base) {
			return f
		}
	}
	return nil
}

func cbSep(cp string) string {
	if strings.Contains(cp, "?") {
		return "&"
	}
	return "?"
}
