//go:build verif

// Package verifsim is the deterministic simulator for authservice. It is compiled *into* the
// authservice module through `go test -overlay` (see /verif/bin/check) and never exists on disk
// under /repo.
package verifsim

import (
	"fmt"
	"hash/fnv"
	"runtime"
	"sort"
	"strings"
	"time"
)

// ---------------------------------------------------------------------------------------------
// PRNG: splitmix64 for seed derivation, xorshift64* for streams. No math/rand anywhere in the
// harness, so nothing depends on a global generator.
// ---------------------------------------------------------------------------------------------

func splitmix(x uint64) uint64 {
	x += 0x9e3779b97f4a7c15
	z := x
	z = (z ^ (z >> 30)) * 0xbf58476d1ce4e5b9
	z = (z ^ (z >> 27)) * 0x94d049bb133111eb
	return z ^ (z >> 31)
}

// Rng is a small deterministic generator. The zero value is not valid; use NewRng.
type Rng struct{ s uint64 }

func NewRng(seed uint64) *Rng {
	s := splitmix(seed)
	if s == 0 {
		s = 0x1234567
	}
	return &Rng{s: s}
}

//go:norace
func (r *Rng) U64() uint64 {
	r.s ^= r.s >> 12
	r.s ^= r.s << 25
	r.s ^= r.s >> 27
	return r.s * 2685821657736338717
}

func (r *Rng) Intn(n int) int {
	if n <= 0 {
		return 0
	}
	return int(r.U64() % uint64(n))
}
func (r *Rng) Bool() bool            { return r.U64()&1 == 1 }
func (r *Rng) Chance(p float64) bool { return float64(r.U64()%1000000)/1000000.0 < p }
func (r *Rng) Pick(xs []string) string {
	return xs[r.Intn(len(xs))]
}
func (r *Rng) Range(lo, hi int) int { // inclusive
	if hi <= lo {
		return lo
	}
	return lo + r.Intn(hi-lo+1)
}
func (r *Rng) Fork() *Rng { return NewRng(r.U64()) }

// Str returns a short unique-looking alnum string.
func (r *Rng) Str(n int) string {
	const cs = "abcdefghijklmnopqrstuvwxyz0123456789"
	b := make([]byte, n)
	for i := range b {
		b[i] = cs[r.Intn(len(cs))]
	}
	return string(b)
}

// ---------------------------------------------------------------------------------------------
// Scheduler: seeded fake-time delays (DESIGN §3.3). Exactly one causal chain runs between two
// clock advances of the synctest bubble; which one is a pure function of the drawn delays.
// All state below is touched only from //go:norace functions with plain memory so that the
// harness neither reports races on itself nor adds happens-before edges (C16).
// ---------------------------------------------------------------------------------------------

type Task struct {
	ID     int
	Name   string
	rng    uint64
	factor int64
	steps  int
	gid    uint64 // id of the goroutine that runs the task (identity for hooks that get no context)
}

// goid returns the id of the calling goroutine (parsed from its stack header; about a microsecond).
func goid() uint64 {
	var buf [40]byte
	n := runtime.Stack(buf[:], false)
	// "goroutine 123 [running]:"
	var id uint64
	for i := len("goroutine "); i < n && buf[i] >= '0' && buf[i] <= '9'; i++ {
		id = id*10 + uint64(buf[i]-'0')
	}
	return id
}

// taskOfGoroutine finds the task run by goroutine gid (nil for goroutines that are not tasks: servers, library
// workers). Plain reads; tasks are only ever appended.
//
//go:norace
func (s *Sim) taskOfGoroutine(gid uint64) *Task {
	if s.main != nil && s.main.gid == gid {
		return s.main
	}
	ts := s.tasks
	for i := len(ts) - 1; i >= 0; i-- {
		if ts[i].gid == gid {
			return ts[i]
		}
	}
	return nil
}

type traceEv struct {
	seq  int64
	task int
	pt   string
	at   int64
}

// slotNS is the width of one scheduling slot. Every wake instant the harness schedules is
// floor(t/slotNS)*slotNS + task.ID: two different tasks can never be woken at the same fake instant, by
// construction and without any shared table (goroutines that a single event inside the service or a library
// releases together may compute their next instants truly in parallel). Two goroutines of the bubble that wake
// at the same instant would run in an order, or in parallel, that the runtime decides and not the seed.
const slotNS = 16384

type Sim struct {
	On     bool
	Policy int // 0 uniform, 1 priority (PCT-like)
	epoch  time.Time
	seq    int64
	cur    *Task
	tasks  []*Task
	trace  []traceEv
	steps  int
	// MaxSteps bounds scheduler steps per run (watchdog against livelock).
	MaxSteps int
	Overrun  bool
	// SlotOverflow: a task id does not fit a scheduling slot (uniqueness of wake instants not guaranteed)
	SlotOverflow bool
	seed         uint64
	main         *Task
	bg           int
}

func NewSim(seed uint64, policy int) *Sim {
	s := &Sim{epoch: time.Now(), Policy: policy, seed: seed, MaxSteps: 400000}
	s.trace = make([]traceEv, 0, 512)
	s.main = &Task{ID: 0, Name: "main", rng: splitmix(seed ^ 0xabcdef), factor: 1, gid: goid()}
	s.cur = s.main
	setWatchSim(s)
	return s
}

// NewTask creates a task whose delay stream depends only on (scheduler seed, stable id), so that
// removing other tasks/ops while shrinking perturbs its own schedule as little as possible.
//
//go:norace
func (s *Sim) NewTask(stableID int, name string) *Task {
	t := &Task{ID: stableID, Name: name, rng: splitmix(s.seed ^ (uint64(stableID)+1)*0x9e3779b97f4a7c15), factor: 1}
	if t.rng == 0 {
		t.rng = 1
	}
	if stableID < 0 || stableID >= slotNS {
		s.SlotOverflow = true
	}
	if s.Policy == 1 {
		// priority-like: a task is fast, medium or slow for a stretch of steps
		t.factor = []int64{1, 8, 64}[t.next()%3]
	}
	s.tasks = append(s.tasks, t)
	return t
}

//go:norace
func (t *Task) next() uint64 {
	t.rng ^= t.rng >> 12
	t.rng ^= t.rng << 25
	t.rng ^= t.rng >> 27
	return t.rng * 2685821657736338717
}

//go:norace
func (s *Sim) isOn() bool { return s.On }

//go:norace
func (s *Sim) nextBg() int { s.bg++; return 5000 + s.bg }

//go:norace
func (s *Sim) Cur() *Task { return s.cur }

//go:norace
func (s *Sim) SetCur(t *Task) { s.cur = t }

//go:norace
func (s *Sim) Seq() int64 { return s.seq }

//go:norace
func (s *Sim) Tick() int64 { s.seq++; return s.seq }

// wakeAfter returns how long task t has to sleep to wake in its own slot, at least d from now.
//
//go:norace
func (s *Sim) wakeAfter(t *Task, d int64) time.Duration {
	now := int64(time.Since(s.epoch))
	wake := (now+d)/slotNS*slotNS + int64(t.ID)%slotNS
	for wake <= now+d-slotNS || wake <= now {
		wake += slotNS
	}
	return time.Duration(wake - now)
}

// delayFor draws the next scheduling delay of task t (its own stream, its own slot).
//
//go:norace
func (s *Sim) delayFor(t *Task) time.Duration {
	d := int64(20000 + t.next()%200000) // 20µs .. 220µs
	if s.Policy == 1 {
		if t.next()%16 == 0 {
			t.factor = []int64{1, 8, 64}[t.next()%3]
		}
		d *= t.factor
	}
	return s.wakeAfter(t, d)
}

// Yield is a scheduling point of the current task. With the scheduler off it only records the event.
//
//go:norace
func (s *Sim) Yield(pt string) { s.YieldAs(s.cur, pt) }

// YieldAs is a scheduling point of task t, for callers that know their identity independently of the
// simulator's notion of the current task (a goroutine that was blocked inside the service or a library and was
// released together with others cannot rely on it).
//
//go:norace
func (s *Sim) YieldAs(t *Task, pt string) {
	if s.On && t != nil {
		s.steps++
		if s.steps > s.MaxSteps {
			s.Overrun = true
		} else {
			d := s.delayFor(t)
			time.Sleep(d)
			s.cur = t
		}
	}
	s.seq++
	if len(s.trace) < cap(s.trace) {
		id := 0
		if t != nil {
			id = t.ID
		}
		s.trace = append(s.trace, traceEv{s.seq, id, pt, int64(time.Since(s.epoch))})
	}
}

// SleepAs is time.Sleep for harness code acting for task t while tasks run concurrently (provider latency,
// waits of background tasks): the wake instant lies in t's slot like a scheduling delay.
//
//go:norace
func (s *Sim) SleepAs(t *Task, d time.Duration) {
	if t == nil {
		t = s.main
	}
	time.Sleep(s.wakeAfter(t, int64(d)))
	s.cur = t
}

//go:norace
func (s *Sim) Sleep(d time.Duration) { s.SleepAs(s.cur, d) }

// totalSteps is the number of scheduling steps of the run.
//
//go:norace
func (s *Sim) totalSteps() int {
	return s.steps
}

// StartDelay is drawn by the spawner for a child so that two tasks never start at the same instant.
//
//go:norace
func (s *Sim) StartDelay(t *Task) time.Duration { return s.delayFor(t) }

// Go starts fn as task t after a seeded start delay. done is closed by the harness's own wrapper.
func (s *Sim) Go(t *Task, fn func()) {
	d := s.StartDelay(t)
	go func() {
		setGid(t, goid())
		time.Sleep(d)
		s.SetCur(t)
		fn()
	}()
}

//go:norace
func setGid(t *Task, g uint64) { t.gid = g }

// TraceString renders the schedule trace (task:point,...) — used for the interleaving hash.
func (s *Sim) TraceString() string {
	var b strings.Builder
	for _, e := range s.trace {
		fmt.Fprintf(&b, "%d:%s,", e.task, e.pt)
	}
	return b.String()
}

// TraceDebug renders the schedule trace with the fake instants (debugging only; not hashed).
func (s *Sim) TraceDebug() string {
	var b strings.Builder
	for _, e := range s.trace {
		fmt.Fprintf(&b, "%d:%s@%d,", e.task, e.pt, e.at)
	}
	return b.String()
}

func hash64(s string) uint64 {
	h := fnv.New64a()
	_, _ = h.Write([]byte(s))
	return h.Sum64()
}

func sortedKeys[V any](m map[string]V) []string {
	ks := make([]string, 0, len(m))
	for k := range m {
		ks = append(ks, k)
	}
	sort.Strings(ks)
	return ks
}
