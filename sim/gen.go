//go:build verif

package verifsim

import (
	"fmt"
	"strings"
)

// Shared generators for world specifications and request targets.

type genOpts struct {
	Filters     int  // number of OIDC filters
	AllowRedis  bool // draw the store kind
	ForceStore  string
	NoDiscovery bool
	NoFetch     bool
	Logout      int // 0 random, 1 always, 2 never
	Timeouts    bool
	Triggers    bool
}

var headerNames = []string{"authorization", "x-id-token", "x-auth-id", "x-forwarded-id-token"}
var accessHeaderNames = []string{"x-access-token", "x-at", "x-forwarded-access-token"}
var preambles = []string{"", "Bearer", "bearer", "Token", "JWT v1"}

func genIdPKnobs(r *Rng) IdPKnobs {
	k := DefaultKnobs()
	k.ExpiresIn = []int{60, 300, 600, 3600}[r.Intn(4)]
	k.IDTokenTTL = []int{60, 300, 600, 3600}[r.Intn(4)]
	k.OmitExpiresIn = r.Chance(0.25)
	k.Refresh = []string{"none", "static", "rotate"}[r.Intn(3)]
	k.AudArray = r.Chance(0.3)
	k.TokenType = []string{"Bearer", "bearer", "BEARER", "bEaReR"}[r.Intn(4)]
	k.Extra = r.Chance(0.3)
	k.Big = r.Chance(0.1)
	k.Alg = "ES256"
	if r.Chance(0.15) {
		k.Alg = "RS256"
	}
	k.DiscDoc = []string{"", "", "pkce-plain-only", "pkce-both", "rich", "minimal"}[r.Intn(6)]
	k.JWKSAlg = r.Chance(0.7)
	k.JWKSKid = true // kid-less key sets are outside the enumerated compliant behaviours
	return k
}

func genFilter(r *Rng, i int, o genOpts) FilterSpec {
	letter := string(rune('a' + i))
	f := FilterSpec{
		Chain: "chain-" + letter, IdP: i, AppHost: "app-" + letter + ".test",
		CallbackPath: []string{"/callback", "/oauth/cb", "/a/b/c/callback", "/oauth/call%20back"}[r.Intn(4)],
		ClientID:     []string{"client-" + letter, "cl ient/" + letter + "+&=", "c" + letter + "-" + r.Str(6)}[r.Intn(3)],
		ClientSecret: "secret-" + letter + "-" + r.Str(12),
		IDToken:      TokenCfg{Header: headerNames[r.Intn(len(headerNames))], Preamble: preambles[r.Intn(len(preambles))]},
		Store:        "memory",
	}
	if r.Chance(0.2) {
		f.ClientSecret = "s3cr3t/+ %&=" + r.Str(8) + letter
	} else if r.Chance(0.2) {
		// bytes whose standard base64 uses '+' and '/' at every alignment
		f.ClientSecret = "p?ssw~rd>1!" + ">?~" + r.Str(1) + ">?~" + r.Str(2) + ">?~" + letter
	}
	if r.Chance(0.3) {
		f.CallbackPort = "443"
	}
	if r.Chance(0.5) {
		f.AccessToken = &TokenCfg{Header: accessHeaderNames[r.Intn(len(accessHeaderNames))], Preamble: preambles[r.Intn(len(preambles))]}
	}
	switch r.Intn(4) {
	case 0:
		f.Scopes = nil
	case 1:
		f.Scopes = []string{"openid"}
	case 2:
		f.Scopes = []string{"profile", "email"}
	case 3:
		f.Scopes = []string{"openid", "offline_access", "api://x/.default"}
	}
	if r.Chance(0.5) {
		// (prefixes that themselves look like a cookie-name prefix are ordinary tokens: the name still starts with __Host-)
		f.CookiePrefix = []string{"p" + letter, "my-app_" + letter, "A.b~c" + letter, "__Secure-" + letter, "__host-" + letter, "__Host-" + letter}[r.Intn(6)]
	}
	if o.Logout == 1 || o.Logout == 0 && r.Chance(0.6) {
		f.Logout = &LogoutCfg{Path: []string{"/logout", "/auth/sign-out"}[r.Intn(2)], RedirectURI: "https://idp-" + letter + ".test/ended?x=1"}
	}
	if o.ForceStore != "" {
		f.Store = o.ForceStore
	} else if o.AllowRedis && r.Chance(0.4) {
		f.Store = "redis"
	}
	if !o.NoDiscovery && r.Chance(0.25) {
		f.Discovery = true
		if f.Logout != nil && r.Bool() {
			f.Logout.RedirectURI = ""
		}
	}
	if !o.NoFetch && r.Chance(0.25) {
		f.JWKSFetch = true
		if r.Bool() {
			f.JWKSInterval = []int{60, 600, 3600}[r.Intn(3)]
		}
	}
	if o.Timeouts {
		f.AbsTimeout = []int{0, 0, 3600, 7200, 86400}[r.Intn(5)]
		f.IdleTimeout = []int{0, 0, 600, 1800, 3600}[r.Intn(5)]
	}
	return f
}

func genSpec(r *Rng, o genOpts) *WorldSpec {
	if o.Filters == 0 {
		o.Filters = 1
	}
	ws := &WorldSpec{}
	for i := 0; i < o.Filters; i++ {
		letter := string(rune('a' + i))
		ws.IdPs = append(ws.IdPs, IdPSpec{Name: letter, Scheme: "http", Host: "idp-" + letter + ".test", Knobs: genIdPKnobs(r)})
		if r.Chance(0.3) {
			ws.IdPs[i].PathPfx = "/realms/r" + letter
		}
		f := genFilter(r, i, o)
		if o.Filters > 1 {
			f.Match = &MatchSpec{Header: ":authority", Equality: f.AppHost}
			if r.Chance(0.3) {
				f.Match = &MatchSpec{Header: "X-Tenant", Prefix: "tenant-" + letter}
			}
		}
		ws.Filters = append(ws.Filters, f)
	}
	if o.Triggers && r.Chance(0.5) {
		ws.TriggerRules = genTriggerRules(r)
	}
	ws.LogLevel = []string{"", "", "error", "debug"}[r.Intn(4)]
	if o.Filters == 1 && r.Chance(0.25) || o.Filters > 1 && r.Chance(0.4) {
		// (several filters: default_oidc_config holds what they have in common, each chain overrides the rest)
		ws.UseOverride = true
	}
	return ws
}

// genTriggerRules draws rule sets under which "/static/..." and "*.css|.js|.png" are public and
// everything else is protected (the usual deployment shape), in several equivalent encodings.
func genTriggerRules(r *Rng) []TriggerRule {
	switch r.Intn(4) {
	case 0:
		return []TriggerRule{{Excluded: []StringMatch{{"prefix", "/static/"}, {"suffix", ".css"}, {"suffix", ".js"}, {"suffix", ".png"}}}}
	case 1:
		return []TriggerRule{{Excluded: []StringMatch{{"prefix", "/static/"}, {"suffix", ".css"}, {"suffix", ".js"}, {"suffix", ".png"}}, Included: []StringMatch{{"prefix", "/"}}}}
	case 2:
		return []TriggerRule{
			{Included: []StringMatch{{"exact", "/never-used"}}},
			{Excluded: []StringMatch{{"prefix", "/static/"}, {"suffix", ".css"}, {"suffix", ".js"}, {"suffix", ".png"}}},
		}
	default:
		return []TriggerRule{{Excluded: []StringMatch{{"suffix", ".png"}, {"suffix", ".js"}, {"prefix", "/static/"}, {"suffix", ".css"}, {"exact", "/healthz"}}}}
	}
}

// isPublicPath is the reference for genTriggerRules' rule sets (path component only).
func isPublicPath(pc string) bool {
	return strings.HasPrefix(pc, "/static/") || strings.HasSuffix(pc, ".css") || strings.HasSuffix(pc, ".js") || strings.HasSuffix(pc, ".png")
}

var pathSegs = []string{"app", "x", "api", "v1", "users", "admin", "a%20b", "caf%C3%A9", "i-._~d", "k;v=1", "q@r:s", "$!*'(),", "%2Fenc", "index.html",
	"docs", "", ".", "..", "v2"} // (empty and dot segments: a path is restored as it was sent, not as a cleaner would write it)
var queryKeys = []string{"a", "q", "next", "redirect", "x[]", "k.e-y", "utm_source"}
var queryVals = []string{"1", "", "a%20b", "a+b", "https%3A%2F%2Fevil.test%2F", "%3Fq%3D1%26r%3D2", "x=y", "caf%C3%A9", ".css", "v;w", "/static/x.png", "~", "100%25"}

// genTarget draws a protected request target: path plus optional query, with reserved and
// percent-encoded characters (no fragment: user agents do not send it).
func genTarget(r *Rng) string {
	n := r.Range(1, 3)
	var segs []string
	for i := 0; i < n; i++ {
		segs = append(segs, pathSegs[r.Intn(len(pathSegs))])
	}
	p := "/" + strings.Join(segs, "/")
	if r.Chance(0.15) {
		p += "/"
	}
	if isPublicPath(p) {
		p += "x"
	}
	if r.Chance(0.6) {
		k := r.Range(1, 3)
		var qs []string
		for i := 0; i < k; i++ {
			key := queryKeys[r.Intn(len(queryKeys))]
			if r.Chance(0.15) {
				qs = append(qs, key) // key without '='
			} else {
				qs = append(qs, key+"="+queryVals[r.Intn(len(queryVals))])
			}
		}
		p += "?" + strings.Join(qs, "&")
		if r.Chance(0.1) {
			p += "&"
		}
	} else if r.Chance(0.1) {
		p += "?"
	}
	return p
}

func describeSpec(ws *WorldSpec) string {
	var parts []string
	for _, f := range ws.Filters {
		k := ws.IdPs[f.IdP].Knobs
		parts = append(parts, fmt.Sprintf("store=%s at=%v logout=%v disc=%v fetch=%v ovr=%v trig=%d exp_in=%v rt=%s aud[]=%v tt=%s alg=%s",
			f.Store, f.AccessToken != nil, f.Logout != nil, f.Discovery, f.JWKSFetch, ws.UseOverride, len(ws.TriggerRules), !k.OmitExpiresIn, k.Refresh, k.AudArray, k.TokenType, k.Alg))
	}
	return strings.Join(parts, " | ")
}
