//go:build verif

package verifsim

import (
	"fmt"
	"os"
	"regexp"
	"runtime"
	"strings"
	"time"
)

// Deadlock watch (C16 only: "without deadlock"). A check that blocks on a lock of the service that is never
// released stops the whole bubble: a goroutine waiting for a sync.Mutex is not durably blocked, so the fake clock
// cannot advance and nothing else can run. From inside the bubble this is undecidable; from OUTSIDE it is a plain
// observation: the run has made no scheduling step for hangPatience of real time AND a goroutine of the bubble
// sits in sync.(*Mutex/RWMutex).Lock with authservice frames on its stack. Only then is it a verdict (the stacks
// are the evidence); any other silence is left to the ordinary watchdog (infrastructure, exit 2).

const hangPatience = 45 * time.Second

var watchSim *Sim    // plain; read racily by the watchdog (no synchronisation on purpose, see core.go)
var watchPlan *Plan  // the plan being executed
var watchSince int64 // unix nanos when it started
var watchOn bool

//go:norace
func setWatchSim(s *Sim) { watchSim = s }

//go:norace
func watchBegin(p *Plan) { watchPlan, watchSince, watchOn = p, time.Now().UnixNano(), true }

//go:norace
func watchEnd() { watchOn = false }

//go:norace
func watchProgress() (int64, *Plan, int64, bool) {
	var seq int64
	if s := watchSim; s != nil {
		seq = s.seq + int64(s.steps)
	}
	return seq, watchPlan, watchSince, watchOn
}

var reGoroutine = regexp.MustCompile(`(?m)^goroutine \d+ [^\n]*\[([^\]]*)\]:$`)

// lockedServiceGoroutines returns one line per goroutine of a bubble that waits for a mutex inside authservice code.
func lockedServiceGoroutines(all string) []string {
	var out []string
	for _, g := range strings.Split(all, "\n\n") {
		m := reGoroutine.FindStringSubmatch(g)
		if m == nil || !strings.Contains(m[1], "synctest bubble") {
			continue
		}
		if !(strings.Contains(m[1], "sync.Mutex.Lock") || strings.Contains(m[1], "sync.RWMutex") || strings.Contains(m[1], "semacquire")) {
			continue
		}
		fn := ""
		for _, line := range strings.Split(g, "\n") {
			if strings.HasPrefix(line, "github.com/istio-ecosystem/authservice/internal/") && !strings.Contains(line, "/simsync.") {
				fn = strings.TrimPrefix(line, "github.com/istio-ecosystem/authservice/")
				if i := strings.Index(fn, "("); i > 0 && !strings.HasPrefix(fn[i:], "(*") {
					fn = fn[:i]
				}
				if i := strings.LastIndex(fn, "("); i > 0 {
					fn = fn[:i]
				}
				break
			}
		}
		if fn != "" {
			out = append(out, fn)
		}
	}
	return out
}

// holderCandidates counts goroutines of a bubble that are inside one of the functions the waiters are blocked in
// without themselves waiting for a lock.
func holderCandidates(all string, waiterFuncs []string) int {
	n := 0
	for _, g := range strings.Split(all, "\n\n") {
		m := reGoroutine.FindStringSubmatch(g)
		if m == nil || !strings.Contains(m[1], "synctest bubble") {
			continue
		}
		if strings.Contains(m[1], "sync.Mutex.Lock") || strings.Contains(m[1], "sync.RWMutex") || strings.Contains(m[1], "semacquire") {
			continue
		}
		for _, fn := range waiterFuncs {
			if strings.Contains(g, "github.com/istio-ecosystem/authservice/"+fn+"(") {
				n++
				break
			}
		}
	}
	return n
}

// hangWatch runs outside any bubble for the lifetime of a worker.
func hangWatch(report func(p *Plan, v Violation, stacks string)) {
	var lastSeq int64 = -1
	var lastChange time.Time
	var lastPlan *Plan
	for {
		time.Sleep(time.Second)
		seq, p, _, on := watchProgress()
		if !on || p == nil {
			lastSeq, lastPlan = -1, nil
			continue
		}
		if p != lastPlan || seq != lastSeq {
			lastSeq, lastPlan, lastChange = seq, p, time.Now()
			continue
		}
		if time.Since(lastChange) < hangPatience {
			continue
		}
		buf := make([]byte, 4<<20)
		n := runtime.Stack(buf, true)
		all := string(buf[:n])
		locked := lockedServiceGoroutines(all)
		if len(locked) == 0 || holderCandidates(all, locked) > 0 {
			// not a lock wait - or some other goroutine of the run is inside the same function without waiting for
			// the lock: it may be holding it across a scheduling point (e.g. across a provider call), and then it
			// is the simulator, whose clock the waiting goroutine freezes, that cannot let the holder continue.
			// That is not a deadlock of the service; the ordinary watchdog reports it as infrastructure (exit 2).
			lastChange = time.Now()
			continue
		}
		sig := "deadlock:blocked-on-a-lock-in:" + locked[0]
		report(p, Violation{Prop: "C16", Sig: sig, Detail: fmt.Sprintf("no scheduling step for %v of real time while %d goroutine(s) of the run wait for a lock inside the service: %s", hangPatience, len(locked), strings.Join(locked, "; "))}, filterStacks(all))
		os.Exit(0)
	}
}
