//go:build verif

package verifsim

import (
	"encoding/base64"
	"encoding/json"
	"fmt"
	"io"
	"net/http"
	"net/url"
	"sort"
	"strings"
	"sync"
	"time"
)

// IdP is a small, strict, executable model of an OpenID provider: the reference for the peer,
// written from RFC 6749 / RFC 7636 / OIDC Core, not from the authservice sources.

type IdPKnobs struct {
	ExpiresIn          int    `json:"expires_in"`                   // access-token lifetime in s
	OmitExpiresIn      bool   `json:"omit_expires_in"`              // do not send expires_in at login
	IDTokenTTL         int    `json:"id_ttl"`                       // ID-token lifetime in s
	Refresh            string `json:"refresh"`                      // none | static | rotate
	AudArray           bool   `json:"aud_array"`                    // aud as array (with a second audience)
	TokenType          string `json:"token_type"`                   // capitalisation of Bearer
	Extra              bool   `json:"extra"`                        // extra response members
	Big                bool   `json:"big,omitempty"`                // large answers: an ID token with some hundred group claims, a long extra member
	JWKSCacheControl   string `json:"jwks_cache_control,omitempty"` // Cache-Control header of the key endpoint's answers
	RefreshNonce       string `json:"refresh_nonce"`                // omit | echo | empty
	RefreshOmitID      bool   `json:"refresh_omit_id"`              // refresh answers omit id_token
	RefreshOmitAccess  bool   `json:"refresh_omit_access"`          // refresh answers omit access_token
	RefreshOmitExpires bool   `json:"refresh_omit_expires"`         // refresh answers omit expires_in
	RefreshOmitRT      bool   `json:"refresh_omit_rt"`              // refresh answers omit refresh_token (static only)
	Alg                string `json:"alg"`                          // ES256 | RS256
	JWKSAlg            bool   `json:"jwks_alg"`                     // publish alg in JWKS
	JWKSKid            bool   `json:"jwks_kid"`                     // publish kid in JWKS
	LatencyUS          int    `json:"latency_us"`                   // token endpoint latency on the fake clock
	RefreshDeny        bool   `json:"refresh_deny"`                 // refresh grants are answered invalid_grant
	IDNoExp            bool   `json:"id_no_exp,omitempty"`          // ID tokens carry no exp claim (unusual provider)
	DiscDoc            string `json:"disc_doc,omitempty"`           // discovery document variant: "" | pkce-plain-only | pkce-both | rich | minimal
	Byz                string `json:"byz"`                          // byzantine production for id_token ("" = honest)
	ByzOn              string `json:"byz_on"`                       // login | refresh | both
}

func DefaultKnobs() IdPKnobs {
	return IdPKnobs{ExpiresIn: 600, IDTokenTTL: 600, Refresh: "static", TokenType: "Bearer", Alg: "ES256", JWKSAlg: true, JWKSKid: true, RefreshNonce: "omit"}
}

type codeRec struct {
	Code        string
	ClientID    string
	RedirectURI string
	Challenge   string
	Nonce       string
	State       string
	Browser     int
	Used        bool
	AuthSeq     int64
}

type rtRec struct {
	Token  string
	Chain  int
	Active bool
}

type issuedTok struct {
	Token    string
	Chain    int
	Exp      time.Time
	Kind     string // id | access | refresh
	Login    bool
	knownExp bool // the lifetime was communicated (expires_in sent / exp claim)
	Key      *SignKey
}

type chainRec struct {
	ID      int
	Code    string
	Nonce   string
	Browser int
	Revoked bool
	// Latest values issued on this chain (the reference for C11's merge).
	LastID, LastAccess, LastRT string
	Refreshes                  int
}

type TokenReq struct {
	RefSecret string // the client secret this request had to carry, as of its arrival (when RefKnown)
	RefKnown  bool
	Seq       int64
	At        time.Time
	Task      int
	TaskName  string
	Grant     string
	Form      url.Values
	Auth      string
	Code      string
	RT        string
	Status    int
	Chain     int
	Problems  []string // protocol violations seen by the strict monitor
	Fault     string
	Answer    map[string]any
	Done      bool
	Forged    string   // byzantine production applied to the answer ("" = honest)
	SignedBy  *SignKey // key that signed the ID token of the answer
}

type AuthReq struct {
	Seq      int64
	Raw      string
	Params   [][2]string
	Problems []string
	Browser  int
	Code     string
}

type IdP struct {
	Name   string
	Host   string // host:port as dialled
	Scheme string
	Path   string // path prefix for endpoints
	// AuthQuery is a query the authorization endpoint itself carries (C13).
	AuthQuery  string
	SharedDisc bool
	// ServerCA selects which test CA issued the certificate the https server presents (C20).
	ServerCA int

	Keys      []*SignKey // all keys this IdP may sign with
	Cur       int        // index of active signing key
	Published []*SignKey // what /jwks serves
	Knobs     IdPKnobs

	ClientID     string
	ClientSecret string
	// AcceptSecret, if set, replaces the equality check on the client secret (C19).
	AcceptSecret func(string) bool
	// OnArrival, if set, is called when a token request reaches the provider, before any simulated latency: what
	// the request had to carry is decided by the state of the world at that instant (C19: the Secret's value as of
	// the last completed reconcile), not by the state when the provider gets round to processing it.
	OnArrival func(tr *TokenReq)
	// LastRotation: instant of the latest signing-key change (Rotate).
	LastRotation time.Time
	// LeanDiscFail: in race builds (no fault bookkeeping, which would synchronise the tasks) the n-th discovery
	// requests listed here are answered 500. Plain counter, touched only by norace code.
	LeanDiscFail []int
	leanDiscN    int
	RedirectURI  string
	EndSession   string

	w  *World
	mu sync.Mutex

	codes     map[string]*codeRec
	rts       map[string]*rtRec
	issued    map[string]*issuedTok
	chains    []*chainRec
	TokenReqs []*TokenReq
	AuthReqs  []*AuthReq
	ctr       int
	curTR     *TokenReq
	Rotations int
	JWKSHits  int
	DiscHits  int
	// JWKSFail makes the JWKS endpoint fail (500) while > 0.
	JWKSFail int
	// RawToken / RawJWKS / RawDisc, when non-nil, replace the body of the next answers (C15 grammar).
	RawToken []string
	RawJWKS  *string
	RawDisc  *string
}

func NewIdP(w *World, name, scheme, host string) *IdP {
	return &IdP{Name: name, Host: host, Scheme: scheme, Path: "", w: w, Knobs: DefaultKnobs(),
		codes: map[string]*codeRec{}, rts: map[string]*rtRec{}, issued: map[string]*issuedTok{}}
}

func (p *IdP) base() string {
	return p.Scheme + "://" + strings.TrimSuffix(strings.TrimSuffix(p.Host, ":80"), ":443") + p.Path
}
func (p *IdP) AuthorizeURL() string { return p.base() + "/authorize" + p.AuthQuery }
func (p *IdP) TokenURL() string     { return p.base() + "/token" }
func (p *IdP) JWKSURL() string      { return p.base() + "/jwks" }
func (p *IdP) DiscoveryURL() string {
	if p.SharedDisc {
		return p.Scheme + "://" + strings.TrimSuffix(strings.TrimSuffix(p.Host, ":80"), ":443") + "/.well-known/openid-configuration?p=" + p.Name
	}
	return p.base() + "/.well-known/openid-configuration"
}
func (p *IdP) EndSessionURL() string {
	return p.base() + "/end-session"
}

func (p *IdP) signKey() *SignKey { return p.Keys[p.Cur] }

func (p *IdP) uniq(prefix string) string {
	p.ctr++
	return fmt.Sprintf("%s-%s-%d-%s", prefix, p.Name, p.ctr, p.w.valRng.Str(10))
}

func (p *IdP) Handler() http.Handler {
	mux := http.NewServeMux()
	mux.HandleFunc(p.Path+"/token", p.handleToken)
	mux.HandleFunc(p.Path+"/jwks", func(w http.ResponseWriter, r *http.Request) {
		t := p.w.Sim.Cur()
		p.w.Sim.Yield("idp:jwks")
		p.w.Sim.SetCur(t)
		p.mu.Lock()
		p.JWKSHits++
		fail := p.JWKSFail > 0
		if fail {
			p.JWKSFail--
		}
		body := JWKSJSON(p.Published, p.Knobs.JWKSAlg, p.Knobs.JWKSKid)
		if p.RawJWKS != nil {
			body = *p.RawJWKS
		}
		p.mu.Unlock()
		f := p.w.faultAt("idp.jwks")
		if f == "ctx-cancel" {
			// the caller of the check that triggered this key fetch gives up while it is in flight
			f = ""
			p.w.cancelActive(t)
		}
		if f != "" || fail {
			p.w.countFault("jwks-http-" + orStr(f, "500"))
			http.Error(w, "boom", 500)
			return
		}
		w.Header().Set("Content-Type", "application/json")
		if cc := p.Knobs.JWKSCacheControl; cc != "" {
			w.Header().Set("Cache-Control", cc)
		}
		_, _ = io.WriteString(w, body)
	})
	mux.HandleFunc(p.Path+"/.well-known/openid-configuration", func(w http.ResponseWriter, r *http.Request) {
		t := p.w.Sim.Cur()
		p.w.Sim.Yield("idp:disc")
		p.w.Sim.SetCur(t)
		p.mu.Lock()
		p.DiscHits++
		p.mu.Unlock()
		if p.leanDiscFails() {
			http.Error(w, "boom", 500)
			return
		}
		switch f := p.w.faultAt("idp.disc"); f {
		case "":
		case "ctx-cancel":
			p.w.cancelActive(t)
		case "stall":
			p.w.dropFaultEntry(t) // the answer is late, not wrong
			p.w.stallHere()
			p.w.Sim.SetCur(t)
		case "garbage":
			p.w.countFault("discovery-garbage")
			w.Header().Set("Content-Type", "application/json")
			_, _ = io.WriteString(w, "{\"issuer\": <<<")
			return
		case "reset":
			p.w.countFault("discovery-reset")
			panic(http.ErrAbortHandler)
		default:
			p.w.countFault("discovery-http-500")
			http.Error(w, "boom", 500)
			return
		}
		doc := map[string]any{
			"issuer":                   p.base(),
			"authorization_endpoint":   p.AuthorizeURL(),
			"token_endpoint":           p.TokenURL(),
			"jwks_uri":                 p.JWKSURL(),
			"end_session_endpoint":     p.EndSessionURL(),
			"response_types_supported": []string{"code"},
		}
		switch p.Knobs.DiscDoc {
		case "pkce-plain-only":
			doc["code_challenge_methods_supported"] = []string{"plain"}
		case "pkce-both":
			doc["code_challenge_methods_supported"] = []string{"plain", "S256"}
		case "rich":
			doc["code_challenge_methods_supported"] = []string{"S256"}
			doc["scopes_supported"] = []string{"openid", "email"}
			doc["token_endpoint_auth_methods_supported"] = []string{"client_secret_post", "private_key_jwt"}
			doc["id_token_signing_alg_values_supported"] = []string{"RS256", "ES256", "none"}
			doc["userinfo_endpoint"] = p.base() + "/userinfo"
			doc["unknown_member"] = map[string]any{"a": 1}
		case "minimal":
			delete(doc, "response_types_supported")
			delete(doc, "issuer")
		}
		w.Header().Set("Content-Type", "application/json")
		if p.RawDisc != nil {
			_, _ = io.WriteString(w, *p.RawDisc)
			return
		}
		_ = json.NewEncoder(w).Encode(doc)
	})
	return mux
}

//go:norace
func (p *IdP) leanDiscFails() bool {
	if len(p.LeanDiscFail) == 0 {
		return false
	}
	p.leanDiscN++
	for _, n := range p.LeanDiscFail {
		if n == p.leanDiscN {
			return true
		}
	}
	return false
}

func orStr(a, b string) string {
	if a != "" {
		return a
	}
	return b
}

// ---------------------------------------------------------------------------------------------
// Authorization endpoint: called by the simulated browser (a function call, not HTTP: the
// service never talks to it). Parsing is independent of net/url's query codec.
// ---------------------------------------------------------------------------------------------

// splitQuery splits k=v&k=v without decoding; pctDecode decodes one component strictly.
func splitQuery(q string) [][2]string {
	var out [][2]string
	if q == "" {
		return out
	}
	for _, kv := range strings.Split(q, "&") {
		if kv == "" {
			continue // "a=b&&c=d" and a trailing "&" carry no parameter
		}
		k, v, _ := strings.Cut(kv, "=")
		out = append(out, [2]string{k, v})
	}
	return out
}

func pctDecode(s string) (string, bool) {
	var b strings.Builder
	for i := 0; i < len(s); i++ {
		c := s[i]
		switch {
		case c == '+':
			b.WriteByte(' ')
		case c == '%':
			if i+2 > len(s)-1 {
				return "", false
			}
			h, ok1 := unhex(s[i+1])
			l, ok2 := unhex(s[i+2])
			if !ok1 || !ok2 {
				return "", false
			}
			b.WriteByte(h<<4 | l)
			i += 2
		default:
			b.WriteByte(c)
		}
	}
	return b.String(), true
}

func unhex(c byte) (byte, bool) {
	switch {
	case '0' <= c && c <= '9':
		return c - '0', true
	case 'a' <= c && c <= 'f':
		return c - 'a' + 10, true
	case 'A' <= c && c <= 'F':
		return c - 'A' + 10, true
	}
	return 0, false
}

// Authorize validates an authorization request the way a strict provider would and issues a code.
// The returned AuthReq lists every deviation from the expected request in Problems; a code is issued
// only when there is none of the fatal kind.
func (p *IdP) Authorize(loc string, browser int) *AuthReq {
	return p.AuthorizeAs(loc, browser, p.RedirectURI, nil)
}

// AuthorizeAs judges the request against the registration of one particular filter: several chains may share one
// client registration (one client id, one secret) with one redirect URI each and scopes of their own.
func (p *IdP) AuthorizeAs(loc string, browser int, redirectURI string, scopes []string) *AuthReq {
	ar := p.parseAuthAs(loc, redirectURI, scopes)
	p.mu.Lock()
	defer p.mu.Unlock()
	ar.Seq, ar.Browser = p.w.Sim.Tick(), browser
	p.AuthReqs = append(p.AuthReqs, ar)
	if len(ar.Problems) > 0 {
		return ar
	}
	code := p.uniq("code")
	p.codes[code] = &codeRec{Code: code, ClientID: ar.Param("client_id"), RedirectURI: ar.Param("redirect_uri"), Challenge: ar.Param("code_challenge"),
		Nonce: ar.Param("nonce"), State: ar.Param("state"), Browser: browser, AuthSeq: ar.Seq}
	ar.Code = code
	return ar
}

// parseAuth is the strict, independent parse of an authorization request (no side effects).
func (p *IdP) parseAuth(loc string) *AuthReq { return p.parseAuthAs(loc, p.RedirectURI, nil) }

// parseAuthAs: redirectURI is the redirect URI the sending filter is configured with; scopes (when not nil) the scopes
// it is configured with: the request must carry exactly those plus openid.
func (p *IdP) parseAuthAs(loc string, redirectURI string, scopes []string) *AuthReq {
	ar := &AuthReq{Raw: loc}
	want := p.AuthorizeURL()
	wantBase, wantQuery, _ := strings.Cut(want, "?")
	base, query, hasQ := strings.Cut(loc, "?")
	if base != wantBase {
		ar.Problems = append(ar.Problems, fmt.Sprintf("endpoint: got %q want %q", base, wantBase))
		return ar
	}
	if !hasQ {
		ar.Problems = append(ar.Problems, "no query")
		return ar
	}
	if strings.ContainsAny(query, "?# ") {
		ar.Problems = append(ar.Problems, "query contains raw '?', '#' or space")
	}
	params := splitQuery(query)
	// the endpoint's own query must be retained as the leading parameters
	own := splitQuery(wantQuery)
	for _, o := range own {
		found := false
		for i, kv := range params {
			if kv == o {
				params = append(params[:i:i], params[i+1:]...)
				found = true
				break
			}
		}
		if !found {
			ar.Problems = append(ar.Problems, "endpoint's own query parameter lost: "+o[0])
		}
	}
	got := map[string]string{}
	for _, kv := range params {
		k, ok1 := pctDecode(kv[0])
		v, ok2 := pctDecode(kv[1])
		if !ok1 || !ok2 {
			ar.Problems = append(ar.Problems, "bad percent-encoding in "+kv[0])
			continue
		}
		if _, dup := got[k]; dup {
			ar.Problems = append(ar.Problems, "duplicate parameter "+k)
		}
		got[k] = v
		ar.Params = append(ar.Params, [2]string{k, v})
	}
	expect := map[string]string{
		"response_type":         "code",
		"client_id":             p.ClientID,
		"redirect_uri":          redirectURI,
		"code_challenge_method": "S256",
	}
	for _, k := range []string{"response_type", "client_id", "redirect_uri", "code_challenge_method"} {
		if got[k] != expect[k] {
			ar.Problems = append(ar.Problems, fmt.Sprintf("%s: got %q want %q", k, got[k], expect[k]))
		}
	}
	for _, k := range []string{"scope", "state", "nonce", "code_challenge"} {
		if got[k] == "" {
			ar.Problems = append(ar.Problems, "missing "+k)
		}
	}
	hasOpenID := false
	for _, s := range strings.Split(got["scope"], " ") {
		if s == "openid" {
			hasOpenID = true
		}
	}
	if !hasOpenID {
		ar.Problems = append(ar.Problems, "scope lacks openid")
	}
	if scopes != nil && hasOpenID {
		want := strings.Fields(strings.Join(scopes, " "))
		for _, s := range want {
			if s == "openid" {
				want = nil
				break
			}
		}
		if want == nil {
			want = strings.Fields(strings.Join(scopes, " "))
		} else {
			want = append(want, "openid")
		}
		gotS := strings.Fields(got["scope"])
		sort.Strings(want)
		sort.Strings(gotS)
		if strings.Join(want, " ") != strings.Join(gotS, " ") {
			ar.Problems = append(ar.Problems, fmt.Sprintf("scope: got %q, configured %q (+openid)", got["scope"], strings.Join(scopes, " ")))
		}
	}
	for k := range got {
		switch k {
		case "response_type", "client_id", "redirect_uri", "scope", "state", "nonce", "code_challenge", "code_challenge_method":
		default:
			ar.Problems = append(ar.Problems, "unexpected parameter "+k)
		}
	}
	return ar
}

func (ar *AuthReq) Param(k string) string {
	for _, kv := range ar.Params {
		if kv[0] == k {
			return kv[1]
		}
	}
	return ""
}

// ---------------------------------------------------------------------------------------------
// Token endpoint
// ---------------------------------------------------------------------------------------------

func (p *IdP) checkClientAuth(tr *TokenReq) bool {
	id, sec := "", ""
	if strings.HasPrefix(tr.Auth, "Basic ") {
		raw, err := base64.StdEncoding.DecodeString(strings.TrimPrefix(tr.Auth, "Basic "))
		if err != nil {
			tr.Problems = append(tr.Problems, "client-auth: undecodable Basic header")
			return false
		}
		i, s, ok := strings.Cut(string(raw), ":")
		if !ok {
			tr.Problems = append(tr.Problems, "client-auth: Basic header without colon")
			return false
		}
		// RFC 6749 §2.3.1 says form-urlencode; raw is what most clients send. Accept both.
		id, sec = i, s
		if i2, err := url.QueryUnescape(i); err == nil && i2 == p.ClientID {
			id = i2
		}
		if tr.Form.Get("client_secret") != "" {
			tr.Problems = append(tr.Problems, "client-auth: both Basic and form credentials")
		}
	} else {
		id, sec = tr.Form.Get("client_id"), tr.Form.Get("client_secret")
	}
	okSecret := sec == p.ClientSecret
	if !okSecret {
		if s2, err := url.QueryUnescape(sec); err == nil && s2 == p.ClientSecret {
			okSecret = true
		}
	}
	if p.AcceptSecret != nil {
		okSecret = p.AcceptSecret(sec)
	}
	if tr.RefKnown {
		okSecret = sec == tr.RefSecret
	}
	if id != p.ClientID || !okSecret {
		tr.Problems = append(tr.Problems, fmt.Sprintf("client-auth: wrong credentials id=%q", id))
		return false
	}
	return true
}

func (p *IdP) handleToken(w http.ResponseWriter, r *http.Request) {
	sim := p.w.Sim
	task := sim.Cur()
	body, _ := io.ReadAll(r.Body)
	form, perr := url.ParseQuery(string(body))
	tr := &TokenReq{Seq: sim.Tick(), At: time.Now(), Grant: form.Get("grant_type"), Form: form, Auth: r.Header.Get("Authorization"),
		Code: form.Get("code"), RT: form.Get("refresh_token"), Chain: -1}
	if task != nil {
		tr.Task, tr.TaskName = task.ID, task.Name
	}
	p.mu.Lock()
	p.TokenReqs = append(p.TokenReqs, tr)
	p.mu.Unlock()
	if p.OnArrival != nil {
		p.OnArrival(tr)
	}
	p.w.noteTokenReq(p, tr)
	p.w.logf("  idp %s token request grant=%s code=%s task=%s", p.Name, tr.Grant, tr.Code, tr.TaskName)

	sim.Yield("idp:token:in")
	sim.SetCur(task)
	if p.Knobs.LatencyUS > 0 {
		sim.SleepAs(task, time.Duration(p.Knobs.LatencyUS)*time.Microsecond)
		sim.SetCur(task)
	}

	fault := p.w.faultAt("idp.token")
	if fault == "stall" {
		fault = ""
		p.w.dropFaultEntry(task)
		p.w.stallHere()
		sim.SetCur(task)
	}
	if fault == "ctx-cancel" {
		// Envoy gives up on the check while the provider is serving its token request; the provider itself
		// answers normally
		fault = ""
		p.w.cancelActive(task)
	}
	tr.Fault = fault
	if fault != "" {
		p.w.countFault("token-" + fault)
	}
	finish := func(status int, ans map[string]any) {
		tr.Status, tr.Answer = status, ans
		sim.Yield("idp:token:out")
		sim.SetCur(task)
		tr.Done = true
		switch fault {
		case "reset-after":
			panic(http.ErrAbortHandler)
		case "truncated":
			b, _ := json.Marshal(ans)
			w.Header().Set("Content-Type", "application/json")
			w.Header().Set("Content-Length", fmt.Sprint(len(b)))
			w.WriteHeader(status)
			_, _ = w.Write(b[:len(b)/2])
			panic(http.ErrAbortHandler)
		case "garbage":
			w.Header().Set("Content-Type", "application/json")
			w.WriteHeader(200)
			_, _ = io.WriteString(w, "{\"id_token\": <<<not json>>>")
			return
		}
		w.Header().Set("Content-Type", "application/json")
		w.Header().Set("Cache-Control", "no-store")
		w.WriteHeader(status)
		_ = json.NewEncoder(w).Encode(ans)
	}
	switch fault {
	case "reset-before":
		tr.Status = -1
		tr.Done = true
		panic(http.ErrAbortHandler)
	case "500":
		tr.Status = 500
		tr.Done = true
		http.Error(w, "internal error", 500)
		return
	case "503":
		tr.Status = 503
		tr.Done = true
		http.Error(w, "unavailable", 503)
		return
	}

	p.mu.Lock()
	p.curTR = tr
	status, ans := p.processToken(tr, perr, r)
	p.curTR = nil
	var raw *string
	if len(p.RawToken) > 0 && status == 200 {
		raw = &p.RawToken[0]
		p.RawToken = p.RawToken[1:]
	}
	p.mu.Unlock()
	if raw != nil {
		// a syntactically arbitrary body in place of the honest answer; %ID% / %AT% splice in honest tokens
		body := *raw
		if id, _ := ans["id_token"].(string); id != "" {
			body = strings.ReplaceAll(body, "%ID%", id)
		}
		if at, _ := ans["access_token"].(string); at != "" {
			body = strings.ReplaceAll(body, "%AT%", at)
		}
		tr.Status, tr.Answer, tr.Forged, tr.Done = 200, nil, "raw-body", true
		p.w.countFault("token-raw-body")
		w.Header().Set("Content-Type", "application/json")
		w.WriteHeader(200)
		_, _ = io.WriteString(w, body)
		return
	}
	finish(status, ans)
}

func oauthErr(code string) map[string]any { return map[string]any{"error": code} }

// processToken is the strict RFC 6749 / 7636 state machine. Called with p.mu held.
func (p *IdP) processToken(tr *TokenReq, perr error, r *http.Request) (int, map[string]any) {
	if r.Method != "POST" {
		tr.Problems = append(tr.Problems, "method "+r.Method)
		return 405, oauthErr("invalid_request")
	}
	if ct := r.Header.Get("Content-Type"); !strings.HasPrefix(ct, "application/x-www-form-urlencoded") {
		tr.Problems = append(tr.Problems, "content-type "+ct)
	}
	if perr != nil {
		tr.Problems = append(tr.Problems, "unparsable form")
		return 400, oauthErr("invalid_request")
	}
	for k, vs := range tr.Form {
		if len(vs) > 1 {
			tr.Problems = append(tr.Problems, "duplicate form member "+k)
		}
	}
	if !p.checkClientAuth(tr) {
		return 401, oauthErr("invalid_client")
	}
	switch tr.Grant {
	case "authorization_code":
		rec := p.codes[tr.Code]
		if rec == nil {
			tr.Problems = append(tr.Problems, "unknown code")
			return 400, oauthErr("invalid_grant")
		}
		if rec.Used {
			tr.Problems = append(tr.Problems, "code replayed")
			// RFC 6749 §4.1.2: revoke tokens issued from it
			for _, c := range p.chains {
				if c.Code == rec.Code {
					c.Revoked = true
				}
			}
			return 400, oauthErr("invalid_grant")
		}
		if tr.Form.Get("redirect_uri") != rec.RedirectURI {
			tr.Problems = append(tr.Problems, "redirect_uri differs from the authorization request")
			return 400, oauthErr("invalid_grant")
		}
		if s256(tr.Form.Get("code_verifier")) != rec.Challenge {
			tr.Problems = append(tr.Problems, "PKCE: S256(code_verifier) != code_challenge")
			return 400, oauthErr("invalid_grant")
		}
		rec.Used = true
		ch := &chainRec{ID: len(p.chains), Code: rec.Code, Nonce: rec.Nonce, Browser: rec.Browser}
		p.chains = append(p.chains, ch)
		tr.Chain = ch.ID
		return 200, p.issue(ch, true)
	case "refresh_token":
		rec := p.rts[tr.RT]
		if rec == nil {
			tr.Problems = append(tr.Problems, "unknown refresh token")
			return 400, oauthErr("invalid_grant")
		}
		ch := p.chains[rec.Chain]
		tr.Chain = ch.ID
		if !rec.Active {
			tr.Problems = append(tr.Problems, "stale refresh token (not the most recently issued)")
			ch.Revoked = true
			return 400, oauthErr("invalid_grant")
		}
		if ch.Revoked {
			return 400, oauthErr("invalid_grant")
		}
		if p.Knobs.RefreshDeny {
			return 400, oauthErr("invalid_grant")
		}
		ch.Refreshes++
		return 200, p.issue(ch, false)
	default:
		tr.Problems = append(tr.Problems, "unsupported grant "+tr.Grant)
		return 400, oauthErr("unsupported_grant_type")
	}
}

// issue builds a token response for chain ch according to the knobs and records it in the ledger.
func (p *IdP) issue(ch *chainRec, login bool) map[string]any {
	k := p.Knobs
	now := time.Now()
	ans := map[string]any{"token_type": k.TokenType}
	if k.TokenType == "" {
		ans["token_type"] = "Bearer"
	}
	// access token
	if login || !k.RefreshOmitAccess {
		at := p.uniq("at")
		ans["access_token"] = at
		ch.LastAccess = at
		sent := login && !k.OmitExpiresIn || !login && !k.RefreshOmitExpires
		p.issued[at] = &issuedTok{Token: at, Chain: ch.ID, Exp: now.Add(time.Duration(k.ExpiresIn) * time.Second), Kind: "access", Login: login, knownExp: sent}
		p.w.addSecret("access-token", at)
	}
	// expires_in describes the access token of the same answer: an answer without access_token carries none
	if _, hasAT := ans["access_token"]; hasAT && (login && !k.OmitExpiresIn || !login && !k.RefreshOmitExpires) {
		ans["expires_in"] = k.ExpiresIn
	}
	// refresh token
	switch k.Refresh {
	case "static":
		if login {
			rt := p.uniq("rt")
			p.rts[rt] = &rtRec{Token: rt, Chain: ch.ID, Active: true}
			ch.LastRT = rt
			ans["refresh_token"] = rt
			p.w.addSecret("refresh-token", rt)
		} else if !k.RefreshOmitRT {
			ans["refresh_token"] = ch.LastRT
		}
	case "rotate":
		if ch.LastRT != "" {
			if old := p.rts[ch.LastRT]; old != nil {
				old.Active = false
			}
		}
		rt := p.uniq("rt")
		p.rts[rt] = &rtRec{Token: rt, Chain: ch.ID, Active: true}
		ch.LastRT = rt
		ans["refresh_token"] = rt
		p.w.addSecret("refresh-token", rt)
	}
	// id token
	if login || !k.RefreshOmitID {
		claims := map[string]any{
			"iss": p.base(), "sub": fmt.Sprintf("user-%d", ch.Browser),
			"iat": now.Unix(), "exp": now.Add(time.Duration(k.IDTokenTTL) * time.Second).Unix(),
			"jti": p.uniq("jti"),
		}
		if k.AudArray {
			claims["aud"] = []string{"other-audience", p.ClientID}
		} else {
			claims["aud"] = p.ClientID
		}
		if k.Big {
			groups := make([]string, 300)
			for g := range groups {
				groups[g] = fmt.Sprintf("group-%03d-of-the-directory", g)
			}
			claims["groups"] = groups
		}
		if login {
			claims["nonce"] = ch.Nonce
		} else {
			switch k.RefreshNonce {
			case "echo":
				claims["nonce"] = ch.Nonce
			case "empty":
				claims["nonce"] = ""
			}
		}
		key := p.signKey()
		exp := time.Unix(claims["exp"].(int64), 0)
		if k.IDNoExp {
			// a token without exp never "remains valid": the ledger records it as already expired
			delete(claims, "exp")
			exp = time.Time{}
		}
		tok := SignJWT(key, nil, claims)
		ch.LastID = tok
		p.issued[tok] = &issuedTok{Token: tok, Chain: ch.ID, Exp: exp, Kind: "id", Login: login, knownExp: true, Key: key}
		if p.curTR != nil {
			p.curTR.SignedBy = key
		}
		ans["id_token"] = tok
		p.w.addSecret("id-token", tok)
	}
	if k.Big {
		ans["x_permissions"] = strings.Repeat("perm:read:resource/0123456789 ", 200)
	}
	if k.Extra {
		ans["scope"] = "openid profile"
		ans["not_before_policy"] = 0
		ans["session_state"] = "x"
		ans["nested"] = map[string]any{"a": []int{1, 2}}
	}
	if k.Byz != "" && (k.ByzOn == "both" || k.ByzOn == "" || k.ByzOn == "login" && login || k.ByzOn == "refresh" && !login) {
		p.byzantine(ans, ch, login)
	}
	return ans
}

// IssuedID reports whether tok is an ID token the honest ledger issued, and its record.
func (p *IdP) Issued(tok string) *issuedTok {
	p.mu.Lock()
	defer p.mu.Unlock()
	return p.issued[tok]
}

func (p *IdP) Chain(i int) *chainRec {
	p.mu.Lock()
	defer p.mu.Unlock()
	if i < 0 || i >= len(p.chains) {
		return nil
	}
	return p.chains[i]
}

func (p *IdP) tokenReqsSnapshot() []*TokenReq {
	p.mu.Lock()
	defer p.mu.Unlock()
	return append([]*TokenReq(nil), p.TokenReqs...)
}

func sortedProblems(ps []string) string {
	q := append([]string(nil), ps...)
	sort.Strings(q)
	return strings.Join(q, "; ")
}
