//go:build verif

package verifsim

// byzantine replaces the honest id_token of ans by one drawn from the adversarial grammar (C02).
// Filled in by prop_c02.go's table.
func (p *IdP) byzantine(ans map[string]any, ch *chainRec, login bool) {
	if byzImpl != nil {
		byzImpl(p, ans, ch, login)
	}
}

var byzImpl func(p *IdP, ans map[string]any, ch *chainRec, login bool)
