//go:build verif

package verifsim

import (
	"crypto"
	"crypto/ecdsa"
	"crypto/elliptic"
	"crypto/hmac"
	"crypto/rand"
	"crypto/rsa"
	"crypto/sha256"
	"encoding/base64"
	"encoding/json"
	"errors"
	"math/big"
	"strings"
)

// Standard-library-only JOSE: used by the simulated IdP to sign and by the oracles to verify,
// independently of the jwx library the service uses.

type SignKey struct {
	Kid string
	Alg string // ES256 | RS256
	EC  *ecdsa.PrivateKey
	RSA *rsa.PrivateKey
}

func b64(b []byte) string { return base64.RawURLEncoding.EncodeToString(b) }
func unb64(s string) ([]byte, error) {
	return base64.RawURLEncoding.DecodeString(s)
}

func newECKey(kid string) *SignKey {
	k, err := ecdsa.GenerateKey(elliptic.P256(), rand.Reader)
	if err != nil {
		panic(err)
	}
	return &SignKey{Kid: kid, Alg: "ES256", EC: k}
}

func newRSAKey(kid string) *SignKey {
	k, err := rsa.GenerateKey(rand.Reader, 2048)
	if err != nil {
		panic(err)
	}
	return &SignKey{Kid: kid, Alg: "RS256", RSA: k}
}

// JWK returns the public JWK members.
func (k *SignKey) JWK(withAlg, withKid bool) map[string]any {
	m := map[string]any{"use": "sig"}
	if k.EC != nil {
		m["kty"] = "EC"
		m["crv"] = "P-256"
		m["x"] = b64(pad32(k.EC.X.Bytes()))
		m["y"] = b64(pad32(k.EC.Y.Bytes()))
	} else {
		m["kty"] = "RSA"
		m["n"] = b64(k.RSA.N.Bytes())
		m["e"] = b64(big.NewInt(int64(k.RSA.E)).Bytes())
	}
	if withAlg {
		m["alg"] = k.Alg
	}
	if withKid {
		m["kid"] = k.Kid
	}
	return m
}

func pad32(b []byte) []byte {
	if len(b) >= 32 {
		return b
	}
	out := make([]byte, 32)
	copy(out[32-len(b):], b)
	return out
}

func JWKSJSON(keys []*SignKey, withAlg, withKid bool) string {
	var ks []any
	for _, k := range keys {
		ks = append(ks, k.JWK(withAlg, withKid))
	}
	b, _ := json.Marshal(map[string]any{"keys": ks})
	return string(b)
}

func (k *SignKey) sign(input string) []byte {
	h := sha256.Sum256([]byte(input))
	if k.EC != nil {
		r, s, err := ecdsa.Sign(rand.Reader, k.EC, h[:])
		if err != nil {
			panic(err)
		}
		return append(pad32(r.Bytes()), pad32(s.Bytes())...)
	}
	sig, err := rsa.SignPKCS1v15(rand.Reader, k.RSA, crypto.SHA256, h[:])
	if err != nil {
		panic(err)
	}
	return sig
}

// SignJWT builds a compact JWS. header may override/add members (alg and kid default from key).
func SignJWT(k *SignKey, header map[string]any, claims map[string]any) string {
	h := map[string]any{"alg": k.Alg, "typ": "JWT", "kid": k.Kid}
	for a, b := range header {
		if b == nil {
			delete(h, a)
		} else {
			h[a] = b
		}
	}
	hb, _ := json.Marshal(h)
	cb, _ := json.Marshal(claims)
	input := b64(hb) + "." + b64(cb)
	return input + "." + b64(k.sign(input))
}

// SignHS256 signs with an HMAC secret (algorithm-confusion attacks).
func SignHS256(secret []byte, header map[string]any, claims map[string]any) string {
	h := map[string]any{"alg": "HS256", "typ": "JWT"}
	for a, b := range header {
		h[a] = b
	}
	hb, _ := json.Marshal(h)
	cb, _ := json.Marshal(claims)
	input := b64(hb) + "." + b64(cb)
	m := hmac.New(sha256.New, secret)
	m.Write([]byte(input))
	return input + "." + b64(m.Sum(nil))
}

// VerifyJWT is the independent verifier: exactly three non-empty base64url parts, an asymmetric
// alg matching the key type, a valid signature under one of keys. Returns the claims.
func VerifyJWT(tok string, keys []*SignKey) (map[string]any, error) {
	parts := strings.Split(tok, ".")
	if len(parts) != 3 {
		return nil, errors.New("not a 3-part compact JWS")
	}
	hb, err := unb64(parts[0])
	if err != nil {
		return nil, errors.New("bad header encoding")
	}
	var hdr map[string]any
	if err := json.Unmarshal(hb, &hdr); err != nil {
		return nil, errors.New("bad header json")
	}
	alg, _ := hdr["alg"].(string)
	kid, _ := hdr["kid"].(string)
	sig, err := unb64(parts[2])
	if err != nil || len(sig) == 0 {
		return nil, errors.New("bad or empty signature")
	}
	cb, err := unb64(parts[1])
	if err != nil {
		return nil, errors.New("bad payload encoding")
	}
	var claims map[string]any
	if err := json.Unmarshal(cb, &claims); err != nil {
		return nil, errors.New("bad payload json")
	}
	input := parts[0] + "." + parts[1]
	sum := sha256.Sum256([]byte(input))
	for _, k := range keys {
		if kid != "" && k.Kid != "" && kid != k.Kid {
			// a verifier may still try keys without matching kid; we accept any key of the set that
			// verifies, because "valid signature under the configured key set" is what is required.
		}
		switch {
		case alg == "ES256" && k.EC != nil:
			if len(sig) != 64 {
				continue
			}
			r := new(big.Int).SetBytes(sig[:32])
			s := new(big.Int).SetBytes(sig[32:])
			if ecdsa.Verify(&k.EC.PublicKey, sum[:], r, s) {
				return claims, nil
			}
		case alg == "RS256" && k.RSA != nil:
			if rsa.VerifyPKCS1v15(&k.RSA.PublicKey, crypto.SHA256, sum[:], sig) == nil {
				return claims, nil
			}
		}
	}
	return nil, errors.New("signature does not verify under the key set (alg=" + alg + ")")
}

// jwtClaims decodes the payload without verifying (for exp etc. of ledger tokens).
func jwtClaims(tok string) map[string]any {
	parts := strings.Split(tok, ".")
	if len(parts) < 2 {
		return nil
	}
	cb, err := unb64(parts[1])
	if err != nil {
		return nil
	}
	var claims map[string]any
	if json.Unmarshal(cb, &claims) != nil {
		return nil
	}
	return claims
}

func s256(verifier string) string {
	h := sha256.Sum256([]byte(verifier))
	return b64(h[:])
}
