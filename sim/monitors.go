//go:build verif

package verifsim

import (
	"encoding/base64"
	"fmt"
	"net/url"
	"strings"
	"time"

	"github.com/istio-ecosystem/authservice/internal/oidc"
)

// SessModel is what the monitor learnt about a session id from the redirect that issued it.
type SessModel struct {
	SID          string
	Order        int
	Filter       int
	State        string
	Nonce        string
	Challenge    string
	URL          string // originally requested URL
	Seq          int64
	Chain        int  // grant chain bound at login (-1 before)
	Exchanged    bool // the provider answered 200 to a code exchange of this session
	ExchangedSeq int64
	ClearFailed  bool
	Done         bool // a callback with this session's state has completed an exchange
	DoneSeq      int64
	Code         string
}

func (w *World) sess(sid string) *SessModel {
	if w.sessions == nil {
		return nil
	}
	return w.sessions[sid]
}

// monitors runs every per-response oracle. Each violation is tagged with the property it belongs
// to; a check reports only its own property.
func (w *World) monitors(rec *CheckRec) {
	if w.Lean {
		return
	}
	w.monPanic(rec)
	if rec.Class == "panic" || rec.Class == "abandoned" {
		return
	}
	w.monRedirect(rec)  // C05 + C13 (+ registers the new session)
	w.monTokenReqs(rec) // C04 + C11 (ledger side)
	w.monStores(rec)    // C02 + C05 (store writes)
	w.monOK(rec)        // C01 + C02 (headers) + C09
	w.monLogout(rec)    // C09
	w.monLeak(rec)      // C14
	w.monRefresh(rec)   // C11
}

// ---- C15 -------------------------------------------------------------------------------------

func (w *World) monPanic(rec *CheckRec) {
	if rec.Panic != nil {
		w.violate("C15", "panic:"+panicSite(rec.PanicStack), fmt.Sprintf("check #%d %s%s panicked: %v", rec.N, rec.Host, rec.Path, rec.Panic))
		return
	}
	if rec.Resp != nil {
		code := rec.Resp.GetStatus().GetCode()
		if rec.Resp.Status == nil {
			w.violate("C15", "verdict-without-status", fmt.Sprintf("check #%d returned a response without status", rec.N))
		} else if code == 0 && rec.Resp.GetDeniedResponse() != nil {
			w.violate("C15", "ok-with-denied-body", fmt.Sprintf("check #%d", rec.N))
		} else if code != 0 && rec.Resp.GetOkResponse() != nil {
			w.violate("C15", "deny-with-ok-body", fmt.Sprintf("check #%d", rec.N))
		}
	}
}

func panicSite(stack string) string {
	for _, ln := range strings.Split(stack, "\n") {
		if strings.Contains(ln, "istio-ecosystem/authservice/internal") && !strings.Contains(ln, "verifsim") && strings.Contains(ln, "(") && !strings.HasPrefix(ln, "\t") {
			f := ln[:strings.LastIndex(ln, "(")]
			if i := strings.LastIndex(f, "/"); i >= 0 {
				f = f[i+1:]
			}
			return f
		}
	}
	return "unknown"
}

// ---- C05 / C13: redirects --------------------------------------------------------------------

func hasNoCache(rec *CheckRec) bool {
	d := rec.Resp.GetDeniedResponse()
	cc := strings.Join(hdrVals(d.GetHeaders(), "cache-control"), ",")
	pr := strings.Join(hdrVals(d.GetHeaders(), "pragma"), ",")
	return strings.Contains(strings.ToLower(cc), "no-cache") && strings.Contains(strings.ToLower(pr), "no-cache")
}

func (w *World) checkSessionCookie(rec *CheckRec, f *FilterRT, wantExpired bool) *ParsedCookie {
	if len(rec.SetCookie) != 1 {
		w.violate("C05", "set-cookie-count", fmt.Sprintf("check #%d (%s): %d Set-Cookie headers, want 1", rec.N, rec.Class, len(rec.SetCookie)))
		return nil
	}
	pc := parseSetCookie(rec.SetCookie[0])
	bad := func(what string) {
		w.violate("C05", "cookie-attr:"+what, fmt.Sprintf("check #%d (%s): Set-Cookie %q: %s", rec.N, rec.Class, rec.SetCookie[0], what))
	}
	if pc.Malformed != "" {
		bad("malformed: " + pc.Malformed)
		return nil
	}
	if pc.Name != f.Spec.CookieName() {
		bad("name")
		for _, o := range w.Filters {
			if o.Idx != f.Idx && pc.Name == o.Spec.CookieName() {
				w.violate("C18", "session-cookie-named-after-another-filters-prefix", fmt.Sprintf("check #%d: filter %s set its session cookie under the name of filter %s: %q (its own: %q)", rec.N, f.Spec.Chain, o.Spec.Chain, pc.Name, f.Spec.CookieName()))
			}
		}
	}
	if !strings.HasPrefix(pc.Name, "__Host-") {
		bad("no-__Host-prefix")
	}
	if pc.Attrs["path"] != "/" {
		bad("path")
	}
	if _, ok := pc.Attrs["domain"]; ok {
		bad("domain-present")
	}
	if _, ok := pc.Attrs["secure"]; !ok {
		bad("not-secure")
	}
	if _, ok := pc.Attrs["httponly"]; !ok {
		bad("not-httponly")
	}
	if ss := strings.ToLower(pc.Attrs["samesite"]); ss != "lax" && ss != "strict" {
		bad("samesite")
	}
	if wantExpired {
		ma, ok := pc.Attrs["max-age"]
		if !ok || !(ma == "0" || strings.HasPrefix(ma, "-")) {
			bad("logout-does-not-expire")
		}
	}
	return pc
}

func (w *World) monRedirect(rec *CheckRec) {
	if rec.Resp == nil || rec.Code == 0 {
		return
	}
	if rec.HTTP == 302 && !hasNoCache(rec) {
		w.violate("C13", "redirect-without-no-cache", fmt.Sprintf("check #%d (%s) 302 lacks cache-control/pragma no-cache", rec.N, rec.Class))
	}
	if rec.Class != "redirect-idp" || rec.Filter < 0 {
		return
	}
	f := w.Filters[rec.Filter]
	// -- the session id cookie
	pc := w.checkSessionCookie(rec, f, false)
	var newSID string
	if pc != nil {
		newSID = pc.Value
		if newSID == "" {
			w.violate("C05", "empty-session-id", fmt.Sprintf("check #%d", rec.N))
		}
		if newSID == rec.SID {
			w.violate("C05", "session-id-not-renewed", fmt.Sprintf("check #%d: redirect re-used the presented id", rec.N))
		}
		if _, seen := w.issuedSIDs[newSID]; seen {
			w.violate("C05", "session-id-reissued", fmt.Sprintf("check #%d: id %s was issued before", rec.N, w.canon(newSID)))
		}
		if _, seen := w.presented[newSID]; seen {
			w.violate("C05", "session-id-equals-presented", fmt.Sprintf("check #%d: issued an id some client presented earlier", rec.N))
		}
	}
	// which class of id did this redirect answer? (reach probes for C05)
	switch {
	case rec.SID == "":
		w.probe("redirect-presented:none")
	case rec.Before != nil && rec.Before.Tokens != nil:
		w.probe("redirect-presented:authenticated")
	case rec.Before != nil && rec.Before.State != nil:
		w.probe("redirect-presented:pending")
	case w.sess(rec.SID) != nil:
		w.probe("redirect-presented:stale")
	default:
		w.probe("redirect-presented:attacker-chosen")
	}
	// -- the presented session is destroyed (sequential contexts only; no fault in this check)
	storeFaulted := false
	for _, fl := range rec.Faults {
		if strings.HasPrefix(fl, "store.") {
			storeFaulted = true
		}
	}
	if rec.SID != "" && !rec.Overlapped && !storeFaulted && !rec.Perturbed && rec.After != nil && rec.After.Found {
		w.violate("C05", "presented-session-survives-redirect", fmt.Sprintf("check #%d: store still holds the presented session after the login redirect", rec.N))
	}
	// -- the Location, parsed by the strict provider-side parser (dry run: no code is issued)
	ar := f.ParseAuth(rec.Location)
	if len(ar.Problems) > 0 {
		w.violate("C13", "authorization-request-malformed:"+problemKinds(ar.Problems), fmt.Sprintf("check #%d Location %q: %s", rec.N, rec.Location, sortedProblems(ar.Problems)))
	}
	var st *oidc.AuthorizationState
	for _, s := range rec.Spy {
		if s.Method == "SetAuthorizationState" && s.State != nil {
			st = s.State
			if newSID != "" && s.SID != newSID {
				w.violate("C05", "state-stored-under-other-id", fmt.Sprintf("check #%d", rec.N))
			}
		}
	}
	if st != nil && len(ar.Problems) == 0 {
		if ar.Param("state") != st.State || ar.Param("nonce") != st.Nonce {
			w.violate("C13", "state-or-nonce-differs-from-stored", fmt.Sprintf("check #%d", rec.N))
		}
		if ar.Param("code_challenge") != s256(st.CodeVerifier) {
			w.violate("C13", "challenge-is-not-S256-of-verifier", fmt.Sprintf("check #%d challenge=%q", rec.N, ar.Param("code_challenge")))
		}
		want := rec.Scheme + "://" + rec.Host + rec.Path
		if st.RequestedURL != want {
			w.violate("C13", "stored-requested-url-differs", fmt.Sprintf("check #%d stored %q want %q", rec.N, st.RequestedURL, want))
		}
	}
	if len(ar.Problems) == 0 {
		if w.seenIdent == nil {
			w.seenIdent = map[string]string{}
		}
		for kind, v := range map[string]string{"state": ar.Param("state"), "nonce": ar.Param("nonce"), "code_challenge": ar.Param("code_challenge")} {
			if prev, ok := w.seenIdent[kind+"/"+v]; ok {
				w.violate("C06", "identifier-repeated:"+kind, fmt.Sprintf("check #%d: the %s of this login redirect equals the one issued by %s: it is computable from values disclosed earlier", rec.N, kind, prev))
			}
			w.seenIdent[kind+"/"+v] = fmt.Sprintf("check #%d", rec.N)
		}
	}
	if newSID != "" {
		// "until a new interactive login completes": a re-issued id starts a new login (the re-issue
		// itself is C05's violation), so the old logout no longer condemns it.
		delete(w.loggedOut, newSID)
		if _, seen := w.issuedSIDs[newSID]; !seen {
			w.issuedSIDs[newSID] = len(w.issuedSIDs) + 1
		}
		if w.sessions == nil {
			w.sessions = map[string]*SessModel{}
		}
		w.sessions[newSID] = &SessModel{SID: newSID, Order: w.issuedSIDs[newSID], Filter: rec.Filter, State: ar.Param("state"), Nonce: ar.Param("nonce"),
			Challenge: ar.Param("code_challenge"), URL: rec.Scheme + "://" + rec.Host + rec.Path, Seq: rec.Seq1, Chain: -1}
	}
}

func problemKinds(ps []string) string {
	var ks []string
	for _, p := range ps {
		k, _, _ := strings.Cut(p, ":")
		k = strings.Fields(k)[0]
		ks = append(ks, k)
	}
	return sortedProblems(ks)
}

// ---- C04 / C11: what reaches the token endpoint ------------------------------------------------

func (w *World) monTokenReqs(rec *CheckRec) {
	for _, tr := range rec.TokenReqs {
		if tr.Chain >= 0 && tr.Status == 200 && (tr.Fault == "reset-after" || tr.Fault == "truncated" || tr.Fault == "garbage" || tr.Forged == "raw-body") {
			// the provider processed the grant (and possibly rotated the refresh token) but its answer was
			// lost: the service legitimately still holds the predecessor
			w.lostReply[tr.Chain] = true
		}
		if tr.Chain >= 0 && tr.Status == 200 && tr.Grant == "refresh_token" {
			// ... or its answer arrived but a store / key-source call of the same check failed (injected, or made
			// with a context the caller had cancelled): the successor could not be validated or saved
			for _, fl := range rec.Faults {
				if strings.HasPrefix(fl, "store.") || strings.HasPrefix(fl, "jwks.") || strings.HasPrefix(fl, "idp.jwks") {
					w.lostReply[tr.Chain] = true
				}
			}
		}
	}
	for _, tr := range rec.TokenReqs {
		if rec.Filter < 0 {
			w.violate("C04", "token-request-from-unsubjected-check", fmt.Sprintf("check #%d", rec.N))
			continue
		}
		f := w.Filters[rec.Filter]
		for _, p := range tr.Problems {
			switch {
			case strings.HasPrefix(p, "client-auth"), strings.HasPrefix(p, "method"), strings.HasPrefix(p, "content-type"),
				strings.HasPrefix(p, "duplicate form"), strings.HasPrefix(p, "unparsable"), strings.HasPrefix(p, "unsupported grant"):
				prop := "C04"
				if tr.Grant == "refresh_token" {
					prop = "C11"
				}
				if w.k8sMode && strings.HasPrefix(p, "client-auth") {
					prop = "C19"
				}
				if len(w.Filters) > 1 && strings.HasPrefix(p, "client-auth") {
					w.violate("C18", "token-request-with-another-filters-credentials", fmt.Sprintf("check #%d (%s): %s", rec.N, f.Spec.Chain, p))
				}
				w.violate(prop, "token-request:"+strings.Fields(p)[0], fmt.Sprintf("check #%d %s grant: %s", rec.N, tr.Grant, p))
			case strings.HasPrefix(p, "stale refresh"), strings.HasPrefix(p, "unknown refresh"):
				if !w.lostReply[tr.Chain] {
					w.violate("C11", "refresh-with-"+strings.Fields(p)[0]+"-token", fmt.Sprintf("check #%d: %s", rec.N, p))
				}
			}
		}
		if tr.Grant != "authorization_code" {
			continue
		}
		w.probe("code-grant-requests")
		// binding of the exchange to the session named by the cookie
		_, q, _ := strings.Cut(rec.Path, "?")
		q, _, _ = strings.Cut(q, "#")
		vals, _ := url.ParseQuery(q)
		sm := w.sess(rec.SID)
		switch {
		case pathComponent(rec.Path) != callbackPath(f.Spec):
			w.violate("C04", "exchange-from-non-callback", fmt.Sprintf("check #%d path %s", rec.N, rec.Path))
		case sm == nil:
			w.violate("C04", "exchange-for-unissued-session", fmt.Sprintf("check #%d sid=%q was never issued by the service", rec.N, rec.SID))
		case sm.Filter != rec.Filter:
			if !w.crossFilterKnown {
				w.violate("C04", "exchange-for-other-filters-session", fmt.Sprintf("check #%d", rec.N))
			}
		default:
			if !containsVal(vals["state"], sm.State) {
				w.violate("C04", "exchange-with-foreign-state", fmt.Sprintf("check #%d: state %v is not the state issued for session %s", rec.N, vals["state"], w.canon(rec.SID)))
			}
			if s256(tr.Form.Get("code_verifier")) != sm.Challenge {
				w.violate("C04", "exchange-with-foreign-verifier", fmt.Sprintf("check #%d: S256(code_verifier) != challenge of session %s", rec.N, w.canon(rec.SID)))
			}
			if sm.Done && rec.Seq0 > sm.DoneSeq {
				w.violate("C04", "second-exchange-for-consumed-state", fmt.Sprintf("check #%d: session %s already completed its login", rec.N, w.canon(rec.SID)))
			} else if sm.Exchanged && rec.Seq0 > sm.ExchangedSeq && !sm.ClearFailed {
				w.violate("C04", "second-exchange-after-successful-exchange", fmt.Sprintf("check #%d: a code exchange for session %s had already succeeded at the provider (the callback then failed later on); the login state must have been consumed", rec.N, w.canon(rec.SID)))
			}
		}
		if tr.Form.Get("redirect_uri") != f.Spec.CallbackURI() {
			w.violate("C04", "exchange-with-wrong-redirect-uri", fmt.Sprintf("check #%d: %q", rec.N, tr.Form.Get("redirect_uri")))
		}
		if !containsVal(vals["code"], tr.Code) {
			w.violate("C04", "exchange-with-other-code", fmt.Sprintf("check #%d sent code %q, callback had %v", rec.N, tr.Code, vals["code"]))
		}
		// NOTE: a consumed code re-sent under *another* session's valid state is not the service's fault (it
		// cannot know codes); the provider rejects it. Only the session-side clauses are judged here.
		if tr.Status == 200 && tr.Done && tr.Fault == "" && sm != nil {
			w.pendingDone = append(w.pendingDone, doneMark{sm, rec, tr})
			if !sm.Exchanged {
				sm.Exchanged, sm.ExchangedSeq = true, rec.Seq1
				// if the store could not clear the state (injected failure on that very call) nothing can consume it
				for _, fl := range rec.Faults {
					if strings.HasPrefix(fl, "store.ClearAuthorizationState") || strings.HasPrefix(fl, "store.GetAuthorizationState") {
						sm.ClearFailed = true
					}
				}
			}
		}
	}
	// a login is "completed" once the callback check returned the redirect to the requested URL
	for _, d := range w.pendingDone {
		if d.rec == rec && rec.Class == "redirect-url" {
			d.sm.Done, d.sm.DoneSeq, d.sm.Code = true, rec.Seq1, d.tr.Code
			if w.codeDone == nil {
				w.codeDone = map[string]*CheckRec{}
			}
			w.codeDone[d.tr.Code] = rec
			w.probe("logins-completed")
			// ... and that redirect names, byte for byte, the URL the session's login redirect was issued for
			if d.sm.URL != "" && rec.Location != d.sm.URL {
				w.violate("C13", "return-location-differs-from-requested-url", fmt.Sprintf("check #%d: the login of session %s was started by a request for %q; after the exchange the Location is %q", rec.N, w.canon(d.sm.SID), d.sm.URL, rec.Location))
			}
		}
	}
	if len(w.pendingDone) > 0 {
		w.pendingDone = w.pendingDone[:0]
	}
}

type doneMark struct {
	sm  *SessModel
	rec *CheckRec
	tr  *TokenReq
}

func containsVal(vs []string, v string) bool {
	return len(vs) > 0 && vs[0] == v
}

func callbackPath(f *FilterSpec) string { return f.CallbackPath }

// ---- C02 / C05: what is written to the store ---------------------------------------------------

// verifyBound applies the independent verifier to an ID token that is about to be / is bound to sid.
// binding: the token is being written by a check right now (the key-set clause is judged at that moment only: a key
// retired later does not make an earlier binding wrong).
func (w *World) verifyBound(f *FilterRT, sid, tok string, login bool, binding ...bool) string {
	claims, err := VerifyJWT(tok, f.IdP.Keys)
	if err != nil {
		return "signature: " + err.Error()
	}
	okAud := false
	switch a := claims["aud"].(type) {
	case string:
		okAud = a == f.Spec.ClientID
	case []any:
		for _, x := range a {
			if s, _ := x.(string); s == f.Spec.ClientID {
				okAud = true
			}
		}
	}
	if !okAud {
		return "audience does not contain the client id"
	}
	sm := w.sess(sid)
	if login {
		n, _ := claims["nonce"].(string)
		if sm == nil || n == "" || n != sm.Nonce {
			return "nonce is not the one issued for this session"
		}
	}
	it := f.IdP.Issued(tok)
	if it == nil {
		return "token was not issued by the provider"
	}
	// "under the filter's configured key set": the provider's own key that made the signature must be one the filter
	// can know (statically configured; or published, and when it no longer is, not after every fetch interval has passed)
	// (the signer is found from the signature itself, not from the ledger: an honest token of an earlier grant that the
	// provider hands out again was made with the key of its time)
	var signer *SignKey
	for _, k := range f.IdP.Keys {
		if _, err := VerifyJWT(tok, []*SignKey{k}); err == nil {
			signer = k
			break
		}
	}
	if len(binding) > 0 && binding[0] && signer != nil && w.keyKnowledge(f, signer) == "unknown-key" {
		w.probe("bound-token-judged-against-the-knowable-key-set:unknown")
		return "signature-key: made with a key of the provider that is not in the filter's key set (retired or never published)"
	}
	// (which session's grant the token came from is not judged on the refresh path: the property binds
	// the nonce at login only)
	return ""
}

func (w *World) monStores(rec *CheckRec) {
	for _, s := range rec.Spy {
		if s.Method != "SetTokenResponse" || s.Tokens == nil || s.Filter < 0 {
			continue
		}
		f := w.Filters[s.Filter]
		if _, ok := w.issuedSIDs[s.SID]; !ok {
			w.violate("C05", "tokens-stored-under-unissued-id", fmt.Sprintf("check #%d stored tokens under %q, an id the service never issued", rec.N, s.SID))
		}
		login := false
		fromEndpoint := false
		for _, tr := range rec.TokenReqs {
			if tr.Grant == "authorization_code" {
				login = true
			}
			if tr.Status == 200 {
				fromEndpoint = true
			}
		}
		if !fromEndpoint {
			w.violate("C02", "tokens-stored-without-token-endpoint-answer", fmt.Sprintf("check #%d", rec.N))
		}
		if why := w.verifyBound(f, s.SID, s.Tokens.IDToken, login, true); why != "" {
			w.violate("C02", "invalid-id-token-bound:"+strings.Fields(why)[0], fmt.Sprintf("check #%d (%s) bound an ID token to session %s: %s", rec.N, map[bool]string{true: "login", false: "refresh"}[login], w.canon(s.SID), why))
		}
		w.probe("tokens-bound")
		if it := f.IdP.Issued(s.Tokens.IDToken); it != nil {
			if sm := w.sess(s.SID); sm != nil {
				if owner, ok := w.chainSID[it.Chain*16+s.Filter]; ok && owner != s.SID {
					w.violate("C04", "tokens-of-one-grant-in-two-sessions", fmt.Sprintf("check #%d", rec.N))
				}
				if w.chainSID == nil {
					w.chainSID = map[int]string{}
				}
				w.chainSID[it.Chain*16+s.Filter] = s.SID
				sm.Chain = it.Chain
			}
		}
	}
	// ground truth re-verification of whatever is stored under the presented id
	if rec.Filter >= 0 && rec.After != nil && rec.After.Found && rec.After.Tokens != nil && !w.corruptStore {
		f := w.Filters[rec.Filter]
		if why := w.verifyBound(f, rec.SID, rec.After.Tokens.IDToken, false); why != "" && !w.crossFilterKnown {
			w.violate("C02", "stored-id-token-invalid:"+strings.Fields(why)[0], fmt.Sprintf("after check #%d the store holds under %s an ID token that fails independent verification: %s", rec.N, w.canon(rec.SID), why))
		}
	}
}

// ---- C01 / C02 / C09: OK verdicts --------------------------------------------------------------

func encPreamble(pre, v string) string {
	if pre != "" {
		return pre + " " + v
	}
	return v
}

func (w *World) candidates(rec *CheckRec) []*oidc.TokenResponse {
	var cs []*oidc.TokenResponse
	for _, s := range rec.Spy {
		if s.Applied && s.Err == nil && s.Tokens != nil && (s.Method == "GetTokenResponse" || s.Method == "SetTokenResponse") {
			cs = append(cs, s.Tokens)
		}
	}
	if rec.Before != nil && rec.Before.Tokens != nil {
		cs = append(cs, rec.Before.Tokens)
	}
	if rec.After != nil && rec.After.Tokens != nil {
		cs = append(cs, rec.After.Tokens)
	}
	return cs
}

func (w *World) monOK(rec *CheckRec) {
	if rec.Class != "ok" || rec.Subject != "oidc" {
		return
	}
	f := w.Filters[rec.Filter]
	w.probe("ok-verdicts")
	// C18: a session created through one filter is honoured only by that filter
	if sm := w.sess(rec.SID); sm != nil && sm.Filter != rec.Filter {
		w.probe("foreign-session-presented-and-honoured")
		w.violate("C18", "session-of-one-filter-honoured-by-another:"+w.storeTopology(sm.Filter, rec.Filter), fmt.Sprintf("check #%d: filter %s answered OK for session %s that was created through filter %s", rec.N, f.Spec.Chain, w.canon(rec.SID), w.Filters[sm.Filter].Spec.Chain))
	}
	if len(w.Filters) > 1 {
		// the forwarded ID token must verify under THIS filter's key set and audience
		if v := rec.OKHeaders[f.Spec.IDToken.Header]; v != "" {
			tok := strings.TrimPrefix(v, f.Spec.IDToken.Preamble+" ")
			whose := "own-session"
			if sm := w.sess(rec.SID); sm != nil && sm.Filter != rec.Filter {
				whose = "foreign-session"
			}
			if claims, err := VerifyJWT(tok, f.IdP.Keys); err != nil {
				w.violate("C18", "forwarded-token-not-under-this-filters-keys:"+whose, fmt.Sprintf("check #%d (%s): %v", rec.N, f.Spec.Chain, err))
			} else if !audContains(claims["aud"], f.Spec.ClientID) {
				w.violate("C18", "forwarded-token-for-another-audience:"+whose, fmt.Sprintf("check #%d (%s)", rec.N, f.Spec.Chain))
			}
		}
	}
	viol := func(sig, detail string) {
		w.violate("C01", sig, fmt.Sprintf("check #%d %s%s answered OK: %s", rec.N, rec.Host, rec.Path, detail))
	}
	// C09: OK after a completed logout of this session. A check invoked after the logout was answered
	// is always judged. A check that was in flight when the logout was answered is judged when its OK
	// rests on work it finished after the logout (token refresh: the case the property names); an
	// in-flight check that merely read the session before its removal may be linearised before the
	// logout (no implementation can close the gap between its last look and its answer leaving).
	if lo, ok := w.loggedOut[rec.SID]; ok && rec.SID != "" && rec.Seq1 > lo {
		switch {
		case rec.Seq0 > lo:
			w.violate("C09", "ok-after-logout:"+w.c09Cause(rec, lo), fmt.Sprintf("check #%d (invoked seq %d, returned seq %d) answered OK for session %s whose logout was answered at seq %d", rec.N, rec.Seq0, rec.Seq1, w.canon(rec.SID), lo))
			viol("logged-out-session", "the session was logged out before this request was made")
		case len(rec.TokenReqs) > 0:
			w.violate("C09", "in-flight-refresh-answered-ok-after-logout", fmt.Sprintf("check #%d was in flight when the logout of session %s was answered (seq %d), finished its token refresh afterwards and answered OK at seq %d", rec.N, w.canon(rec.SID), lo, rec.Seq1))
		default:
			w.probe("in-flight-read-linearised-before-logout")
		}
	}
	if rec.SID == "" {
		viol("no-session-cookie", "no session cookie under the filter's cookie name")
		return
	}
	if len(rec.Faults) > 0 {
		viol("ok-despite-fault:"+strings.Join(rec.Faults, "+"), "a failure was injected inside this check: "+strings.Join(rec.Faults, ", "))
		return
	}
	// (b) a successful refresh exchange during this very check
	refreshed := false
	for _, tr := range rec.TokenReqs {
		if tr.Grant == "refresh_token" && tr.Status == 200 && tr.Done && tr.Fault == "" && tr.Forged == "" {
			refreshed = true
		}
		if tr.Status != 200 || tr.Fault != "" || tr.Forged != "" {
			refreshed = false // the last word of the provider in this check was a failure (or granted nothing valid)
		}
	}
	// (a) stored, provider-issued, unexpired tokens
	stored := false
	why := "no tokens are stored under the presented session id"
	for _, c := range w.candidates(rec) {
		it := f.IdP.Issued(c.IDToken)
		if it == nil || it.Kind != "id" {
			why = "the stored ID token was not issued by the provider"
			continue
		}
		if !it.Exp.After(rec.T0.Add(-time.Second)) {
			why = fmt.Sprintf("the stored ID token expired at %s, check at %s", it.Exp.Format(time.TimeOnly), rec.T0.Format(time.TimeOnly))
			continue
		}
		if f.Spec.AccessToken != nil && c.AccessToken != "" {
			if at := f.IdP.Issued(c.AccessToken); at != nil && at.knownExp && !at.Exp.After(rec.T0.Add(-time.Second)) {
				why = fmt.Sprintf("the stored access token expired at %s, check at %s", at.Exp.Format(time.TimeOnly), rec.T0.Format(time.TimeOnly))
				continue
			}
		}
		stored = true
		break
	}
	if !stored && !refreshed {
		sig := "unjustified-ok"
		if rec.Before != nil && !rec.Before.Found && len(w.candidates(rec)) == 0 {
			sig = "ok-for-unknown-session"
		} else if strings.Contains(why, "expired") {
			sig = "ok-with-expired-tokens"
		}
		viol(sig, why+"; and no successful refresh exchange happened in this check")
	} else {
		w.probe("justified-ok")
		if refreshed {
			w.probe("ok-by-refresh")
		}
	}
	// C02 (2): the injected headers are exactly the bound tokens under the configured names
	w.monOKHeaders(rec, f)
}

func (w *World) monOKHeaders(rec *CheckRec, f *FilterRT) {
	ok := rec.Resp.GetOkResponse()
	if len(ok.GetHeadersToRemove()) > 0 || len(ok.GetResponseHeadersToAdd()) > 0 || len(ok.GetQueryParametersToSet()) > 0 || len(ok.GetQueryParametersToRemove()) > 0 || rec.Resp.GetDynamicMetadata() != nil {
		w.violate("C14", "ok-adds-more-than-token-headers", fmt.Sprintf("check #%d", rec.N))
	}
	seen := map[string]int{}
	for _, h := range ok.GetHeaders() {
		seen[h.GetHeader().GetKey()]++
	}
	match := false
	var lastWhy string
	for _, c := range w.candidates(rec) {
		want := map[string]string{f.Spec.IDToken.Header: encPreamble(f.Spec.IDToken.Preamble, c.IDToken)}
		if f.Spec.AccessToken != nil && c.AccessToken != "" {
			want[f.Spec.AccessToken.Header] = encPreamble(f.Spec.AccessToken.Preamble, c.AccessToken)
		}
		same := len(want) == len(rec.OKHeaders)
		for k, v := range want {
			if rec.OKHeaders[k] != v {
				same = false
				lastWhy = "header " + k
			}
		}
		if same {
			match = true
			break
		}
	}
	for k, n := range seen {
		if n > 1 {
			match = false
			lastWhy = "duplicate header " + k
		}
	}
	if !match && len(w.candidates(rec)) > 0 {
		keys := strings.Join(sortedKeys(rec.OKHeaders), ",")
		prop := "C02"
		w.violate(prop, "forwarded-headers-differ-from-bound-tokens", fmt.Sprintf("check #%d: OK carries headers [%s] which are not exactly the session's tokens under the configured names/preambles (%s)", rec.N, keys, lastWhy))
		extra := false
		for k := range rec.OKHeaders {
			if k != f.Spec.IDToken.Header && (f.Spec.AccessToken == nil || k != f.Spec.AccessToken.Header) {
				extra = true
			}
		}
		if extra {
			w.violate("C14", "ok-adds-more-than-token-headers", fmt.Sprintf("check #%d headers [%s]", rec.N, keys))
		}
	}
}

// c09Cause names the structural reason for an OK after logout, from the store spy.
func (w *World) c09Cause(rec *CheckRec, logoutSeq int64) string {
	removed := false
	for _, s := range w.Spy {
		if s.SID != rec.SID {
			continue
		}
		if s.Method == "RemoveSession" && s.Applied && s.Check != nil && s.Check.Class == "logout" {
			removed = true
		}
		if removed && s.Applied && (s.Method == "SetTokenResponse") && s.Check != nil && s.Check.Seq0 < logoutSeq {
			kind := "refresh"
			for _, tr := range s.Check.TokenReqs {
				if tr.Grant == "authorization_code" {
					kind = "callback"
				}
			}
			return "write-back-by-in-flight-" + kind
		}
	}
	if !removed {
		return "session-never-removed"
	}
	return "session-recreated-after-logout"
}

func (w *World) monLogout(rec *CheckRec) {
	if rec.Filter < 0 || w.Filters[rec.Filter].Spec.Logout == nil {
		return
	}
	f := w.Filters[rec.Filter]
	if pathComponent(rec.Path) != f.Spec.Logout.Path {
		return
	}
	w.probe("logout-requests")
	removeFailed := false
	for _, s := range rec.Spy {
		if s.Method == "RemoveSession" && s.Err != nil {
			removeFailed = true
		}
	}
	for _, fl := range rec.Faults {
		if fl == "store.RemoveSession:redis-down" && rec.After != nil && rec.After.Found {
			// the server rejected the DEL: the session is still there, whatever the store reported
			if rec.Class == "logout" {
				w.violate("C09", "logout-success-despite-removal-failure", fmt.Sprintf("check #%d: Redis was down during the session removal (the session is still stored) but the answer is the logout redirect", rec.N))
			}
			removeFailed = true
		}
	}
	if rec.Class == "logout" {
		want := f.Spec.Logout.RedirectURI
		if want == "" && f.Spec.Discovery {
			want = f.IdP.EndSessionURL()
		}
		if rec.Location != want {
			w.violate("C09", "logout-redirects-elsewhere", fmt.Sprintf("check #%d Location %q want %q", rec.N, rec.Location, want))
			for _, o := range w.Filters {
				if o.Idx == f.Idx || o.Spec.Logout == nil {
					continue
				}
				if ow := o.Spec.Logout.RedirectURI; rec.Location == ow && ow != "" || o.Spec.Discovery && rec.Location == o.IdP.EndSessionURL() {
					w.violate("C18", "logout-redirects-to-another-filters-end-session-uri", fmt.Sprintf("check #%d: filter %s answered its logout with the end-session URI of filter %s: %q (its own: %q)", rec.N, f.Spec.Chain, o.Spec.Chain, rec.Location, want))
				}
			}
		}
		w.checkSessionCookieProp(rec, f, "C09")
		if removeFailed {
			w.violate("C09", "logout-success-despite-removal-failure", fmt.Sprintf("check #%d: RemoveSession failed but the answer is the logout redirect", rec.N))
		}
		if rec.SID != "" {
			if !rec.Overlapped && !removeFailed && rec.After != nil && rec.After.Found {
				w.violate("C09", "logout-leaves-session-in-store", fmt.Sprintf("check #%d: store still holds session %s", rec.N, w.canon(rec.SID)))
			}
			if _, done := w.loggedOut[rec.SID]; !done {
				w.loggedOut[rec.SID] = rec.Seq1
			}
		}
	} else if rec.Class == "ok" {
		w.violate("C09", "logout-path-answered-ok", fmt.Sprintf("check #%d", rec.N))
	}
}

// checkSessionCookieProp verifies that a logout answer expires the session cookie.
func (w *World) checkSessionCookieProp(rec *CheckRec, f *FilterRT, prop string) {
	n := len(w.Viol)
	w.checkSessionCookie(rec, f, true)
	// cookie-shape problems on logout answers belong to C05's cookie clause, expiry to both
	for i := n; i < len(w.Viol); i++ {
		if strings.Contains(w.Viol[i].Sig, "logout-does-not-expire") || strings.Contains(w.Viol[i].Sig, "set-cookie-count") {
			w.Viol = append(w.Viol, Violation{prop, "logout-does-not-expire-cookie", w.Viol[i].Detail})
			break
		}
	}
}

// ---- C14: nothing secret reaches the user agent -------------------------------------------------

func (w *World) monLeak(rec *CheckRec) {
	if rec.Resp == nil {
		return
	}
	var hay strings.Builder
	hay.WriteString(rec.Resp.GetStatus().GetMessage())
	hay.WriteString("\n")
	if d := rec.Resp.GetDeniedResponse(); d != nil {
		hay.WriteString(d.GetBody())
		hay.WriteString("\n")
		for _, h := range d.GetHeaders() {
			hay.WriteString(h.GetHeader().GetKey() + ": " + h.GetHeader().GetValue() + string(h.GetHeader().GetRawValue()) + "\n")
		}
	}
	if o := rec.Resp.GetOkResponse(); o != nil {
		for _, h := range o.GetResponseHeadersToAdd() {
			hay.WriteString(h.GetHeader().GetKey() + ": " + h.GetHeader().GetValue() + "\n")
		}
		// upstream headers: nothing but the ID token and the access token may be added
		var up strings.Builder
		for _, h := range o.GetHeaders() {
			up.WriteString(h.GetHeader().GetKey() + ": " + h.GetHeader().GetValue() + "\n")
		}
		ups := up.String()
		for sec, kind := range w.secrets {
			if kind != "id-token" && kind != "access-token" && len(sec) >= 6 && strings.Contains(ups, sec) {
				w.violate("C14", "ok-adds-a-credential-upstream:"+kind, fmt.Sprintf("check #%d: the %s is added to the upstream request", rec.N, kind))
				break
			}
		}
	}
	raw := hay.String()
	if len(raw) < 8 {
		return
	}
	forms := []string{raw}
	if u, err := url.QueryUnescape(raw); err == nil && u != raw {
		forms = append(forms, u)
	} else if err != nil {
		forms = append(forms, lenientUnescape(raw))
	}
	// base64-looking runs inside the response are decoded too
	for _, tok := range strings.FieldsFunc(raw, func(r rune) bool {
		return !(r >= 'a' && r <= 'z' || r >= 'A' && r <= 'Z' || r >= '0' && r <= '9' || r == '-' || r == '_' || r == '+' || r == '/' || r == '=')
	}) {
		if len(tok) >= 16 {
			if b, err := base64.RawURLEncoding.DecodeString(strings.TrimRight(tok, "=")); err == nil {
				forms = append(forms, string(b))
			} else if b, err := base64.RawStdEncoding.DecodeString(strings.TrimRight(tok, "=")); err == nil {
				forms = append(forms, string(b))
			}
		}
	}
	w.probe("responses-scanned")
	if rec.Class != "ok" && len(w.secrets) > 1 {
		w.probe("non-ok-responses-while-secrets-live")
	}
	for sec, kind := range w.secrets {
		needles := []string{sec}
		if kind == "id-token" {
			if parts := strings.Split(sec, "."); len(parts) == 3 {
				needles = append(needles, parts[1], parts[2])
			}
		}
		for _, n := range needles {
			if len(n) < 6 {
				continue
			}
			for _, fm := range forms {
				if strings.Contains(fm, n) {
					w.violate("C14", "leak:"+kind+":"+rec.Class, fmt.Sprintf("check #%d (%s, code %d): the %s appears in the answer sent to the user agent", rec.N, rec.Class, rec.Code, kind))
					return
				}
			}
		}
	}
}

func lenientUnescape(s string) string {
	var b strings.Builder
	for i := 0; i < len(s); i++ {
		if s[i] == '%' && i+2 < len(s) {
			h, ok1 := unhex(s[i+1])
			l, ok2 := unhex(s[i+2])
			if ok1 && ok2 {
				b.WriteByte(h<<4 | l)
				i += 2
				continue
			}
		}
		b.WriteByte(s[i])
	}
	return b.String()
}

// ---- C11: refresh ---------------------------------------------------------------------------------

func (w *World) monRefresh(rec *CheckRec) {
	if rec.Filter < 0 {
		return
	}
	f := w.Filters[rec.Filter]
	var last *TokenReq
	for _, tr := range rec.TokenReqs {
		if tr.Grant == "refresh_token" {
			last = tr
		}
	}
	if last == nil {
		return
	}
	w.probe("refresh-exchanges")
	var prev *oidc.TokenResponse
	for _, s := range rec.Spy {
		if s.Method == "GetTokenResponse" && s.Applied && s.Err == nil && s.Tokens != nil {
			prev = s.Tokens
			break
		}
	}
	if prev == nil {
		w.violate("C11", "refresh-without-stored-session", fmt.Sprintf("check #%d", rec.N))
		return
	}
	if last.RT != prev.RefreshToken {
		w.violate("C11", "refresh-token-sent-is-not-the-stored-one", fmt.Sprintf("check #%d", rec.N))
	}
	storeFault := false
	for _, fl := range rec.Faults {
		if strings.HasPrefix(fl, "store.") || strings.HasPrefix(fl, "jwks.") || strings.HasPrefix(fl, "idp.jwks") {
			storeFault = true
		}
	}
	success := last.Status == 200 && last.Done && last.Fault == ""
	either := false
	if success && last.Forged != "" {
		// a forged refresh answer must be treated as a validation failure
		success = false
	}
	if success {
		// the ID token of the merged result: the answer's, or the kept one when the provider omitted it
		signer := last.SignedBy
		if id, _ := last.Answer["id_token"].(string); id == "" {
			if it := f.IdP.Issued(prev.IDToken); it != nil {
				signer = it.Key
			}
		}
		switch w.keyKnowledge(f, signer) {
		case "unknown-key":
			success = false
		case "maybe":
			either = true // published but possibly not fetched yet: both outcomes are legitimate
		}
	}
	if storeFault {
		// C01 judges verdicts under store/key faults and the merge model applies to clean exchanges; but
		// one clause survives other faults: after a FAILED exchange the stale session must be gone, unless the
		// removal itself (or the read that precedes it) was the call that failed
		removalFaulted := false
		for _, fl := range rec.Faults {
			if strings.HasPrefix(fl, "store.RemoveSession") || strings.HasPrefix(fl, "store.GetTokenResponse") || strings.HasPrefix(fl, "store.GetAuthorizationState") || strings.HasPrefix(fl, "jwks.") || strings.HasPrefix(fl, "idp.jwks") {
				removalFaulted = true
			}
		}
		if !success && !either && !removalFaulted && rec.After != nil && rec.After.Found && rec.After.Tokens != nil && !rec.Overlapped {
			w.violate("C11", "stale-session-kept-after-failed-refresh:under-store-fault", fmt.Sprintf("check #%d: the refresh exchange failed and another store call of the same check failed too (%s); the stale session is still stored", rec.N, strings.Join(rec.Faults, ",")))
		}
		return
	}
	if either {
		w.probe("refresh-under-key-rollover")
		if rec.Class != "ok" {
			return
		}
	}
	if success {
		ans := last.Answer
		merged := &oidc.TokenResponse{IDToken: prev.IDToken, AccessToken: prev.AccessToken, RefreshToken: prev.RefreshToken}
		if s, _ := ans["id_token"].(string); s != "" {
			merged.IDToken = s
		}
		if s, _ := ans["access_token"].(string); s != "" {
			merged.AccessToken = s
		}
		if s, _ := ans["refresh_token"].(string); s != "" {
			merged.RefreshToken = s
		}
		if rec.Class != "ok" {
			w.violate("C11", "successful-refresh-not-allowed", fmt.Sprintf("check #%d: the refresh exchange succeeded but the verdict is %s", rec.N, rec.Class))
			return
		}
		w.probe("successful-refreshes")
		wantHdr := map[string]string{f.Spec.IDToken.Header: encPreamble(f.Spec.IDToken.Preamble, merged.IDToken)}
		if f.Spec.AccessToken != nil && merged.AccessToken != "" {
			wantHdr[f.Spec.AccessToken.Header] = encPreamble(f.Spec.AccessToken.Preamble, merged.AccessToken)
		}
		for k, v := range wantHdr {
			if rec.OKHeaders[k] != v {
				w.violate("C11", "refresh-ok-headers-are-not-the-merged-result:"+mergeField(k, f), fmt.Sprintf("check #%d header %s", rec.N, k))
			}
		}
		if rec.After == nil || !rec.After.Found || rec.After.Tokens == nil {
			w.violate("C11", "merged-result-not-stored", fmt.Sprintf("check #%d: after a successful refresh the store holds no tokens for the session", rec.N))
		} else {
			g := rec.After.Tokens
			switch {
			case g.IDToken != merged.IDToken:
				w.violate("C11", "stored-merge-wrong:id_token", fmt.Sprintf("check #%d", rec.N))
			case g.AccessToken != merged.AccessToken:
				w.violate("C11", "stored-merge-wrong:access_token", fmt.Sprintf("check #%d", rec.N))
			case g.RefreshToken != merged.RefreshToken:
				w.violate("C11", "stored-merge-wrong:refresh_token", fmt.Sprintf("check #%d stored %q want %q", rec.N, g.RefreshToken, merged.RefreshToken))
			}
		}
		if _, ok := ans["refresh_token"]; ok && ans["refresh_token"] != prev.RefreshToken {
			w.probe("rotations-followed")
		}
		if _, ok := ans["id_token"]; !ok {
			w.probe("refresh-omitted-id-token")
		}
	} else {
		w.probe("failed-refreshes")
		if rec.Class == "ok" {
			w.violate("C11", "allowed-although-refresh-failed", fmt.Sprintf("check #%d: refresh exchange failed (status %d fault %q) but the verdict is OK", rec.N, last.Status, last.Fault))
		}
		if rec.After != nil && rec.After.Found && rec.After.Tokens != nil && !rec.Overlapped {
			w.violate("C11", "stale-session-kept-after-failed-refresh", fmt.Sprintf("check #%d", rec.N))
		}
		if rec.Class != "redirect-idp" && rec.Class != "ok" {
			w.violate("C11", "failed-refresh-does-not-send-to-login", fmt.Sprintf("check #%d: verdict %s", rec.N, rec.Class))
		}
	}
}

func mergeField(hdr string, f *FilterRT) string {
	if hdr == f.Spec.IDToken.Header {
		return "id_token"
	}
	return "access_token"
}

// keyKnowledge says whether the filter can know the key that signed the answer's ID token:
// "known" (in the statically configured set, or published and never rotated), "maybe" (published
// after a rotation, fetcher may or may not have refreshed), "unknown-key".
func (w *World) keyKnowledge(f *FilterRT, signer *SignKey) string {
	if signer == nil {
		return "known"
	}
	// (discovery replaces a static key set by the fetcher: loadWellKnownConfig always sets jwks_uri)
	if !f.Spec.JWKSFetch && !f.Spec.Discovery {
		for _, k := range f.StaticKeys {
			if k == signer {
				return "known"
			}
		}
		return "unknown-key"
	}
	// The fetched key set is refreshed every periodic_fetch_interval_sec (1200 s when not configured), whatever
	// caching headers the key endpoint sends. Once two such intervals and two minutes have passed since the latest
	// key change - in a run without injected faults - the set every replica holds is the published one.
	settled := false
	if f.IdP.Rotations > 0 && len(w.faults) == 0 {
		iv := 1200
		if f.Spec.JWKSFetch && f.Spec.JWKSInterval > 0 {
			iv = f.Spec.JWKSInterval
		}
		settled = time.Since(f.IdP.LastRotation) > time.Duration(2*iv+120)*time.Second
	}
	for _, k := range f.IdP.Published {
		if k == signer {
			if f.IdP.Rotations > 0 && !settled {
				return "maybe"
			}
			if settled {
				w.probe("key-set-settled-after-rotation:published-key")
			}
			return "known"
		}
	}
	if f.IdP.Rotations > 0 && !settled {
		return "maybe" // an older cached key set may still contain it
	}
	return "unknown-key"
}

func audContains(aud any, id string) bool {
	switch a := aud.(type) {
	case string:
		return a == id
	case []any:
		for _, x := range a {
			if s, _ := x.(string); s == id {
				return true
			}
		}
	}
	return false
}

// storeTopology names how two filters' stores relate (part of the C18 signature).
func (w *World) storeTopology(a, b int) string {
	sa, sb := w.Filters[a].Spec.Store, w.Filters[b].Spec.Store
	switch {
	case sa == "memory" && sb == "memory":
		return "shared-memory-store"
	case sa == sb:
		return "shared-redis"
	}
	return "separate-stores"
}
