//go:build verif

package verifsim

import (
	"context"
	"crypto/tls"
	"errors"
	"net"
	"net/http"
	"sync"
	"time"
)

// pipeListener is an in-memory listener: Dial hands one end of a net.Pipe to Accept.
type pipeListener struct {
	ch     chan net.Conn
	closed chan struct{}
	once   sync.Once
	addr   string
}

func newPipeListener(addr string) *pipeListener {
	return &pipeListener{ch: make(chan net.Conn), closed: make(chan struct{}), addr: addr}
}

func (l *pipeListener) Accept() (net.Conn, error) {
	select {
	case c := <-l.ch:
		return c, nil
	case <-l.closed:
		return nil, net.ErrClosed
	}
}
func (l *pipeListener) Close() error   { l.once.Do(func() { close(l.closed) }); return nil }
func (l *pipeListener) Addr() net.Addr { return pipeAddr(l.addr) }

// bufConn makes writes on an in-memory pipe non-blocking (bounded queue + pump goroutine). A bare
// net.Pipe is unbuffered: two peers writing at the same time (TLS 1.3 Finished vs. session tickets)
// would block each other forever.
type bufConn struct {
	net.Conn
	q    chan []byte
	done chan struct{}
	once sync.Once
}

func newBufConn(c net.Conn) *bufConn {
	b := &bufConn{Conn: c, q: make(chan []byte, 1024), done: make(chan struct{})}
	go func() {
		for {
			select {
			case p := <-b.q:
				if _, err := c.Write(p); err != nil {
					return
				}
			case <-b.done:
				return
			}
		}
	}()
	return b
}

func (b *bufConn) Write(p []byte) (int, error) {
	cp := append([]byte(nil), p...)
	select {
	case b.q <- cp:
		return len(p), nil
	case <-b.done:
		return 0, net.ErrClosed
	}
}

func (b *bufConn) Close() error {
	b.once.Do(func() {
		// flush what is queued (best effort), then close
		for {
			select {
			case p := <-b.q:
				_ = b.Conn.SetWriteDeadline(time.Now().Add(time.Millisecond))
				if _, err := b.Conn.Write(p); err != nil {
					close(b.done)
					_ = b.Conn.Close()
					return
				}
				continue
			default:
			}
			break
		}
		close(b.done)
	})
	return b.Conn.Close()
}

func (l *pipeListener) Dial(ctx context.Context) (net.Conn, error) {
	ra, rb := net.Pipe()
	var a, b net.Conn = newBufConn(ra), newBufConn(rb)
	select {
	case l.ch <- b:
		return a, nil
	case <-l.closed:
		return nil, errors.New("sim: connection refused (listener closed)")
	case <-ctx.Done():
		return nil, ctx.Err()
	}
}

type pipeAddr string

func (a pipeAddr) Network() string { return "sim" }
func (a pipeAddr) String() string  { return string(a) }

// SimNet is the only network the system under test sees: host:port -> in-memory listener.
// It is per run; the process-wide http.DefaultTransport dials through curNet.
type SimNet struct {
	listeners map[string]*pipeListener
	servers   []*http.Server
	// DialFault, when set, may fail a dial (fault kind dial-refused). Returns error or nil.
	DialFault func(addr string) error
	Dials     int
}

var curNet *SimNet

func NewSimNet() *SimNet { return &SimNet{listeners: map[string]*pipeListener{}} }

// Serve registers an HTTP(S) server for addr (host:port). tlsCfg nil = plain HTTP.
func (n *SimNet) Serve(addr string, h http.Handler, tlsCfg *tls.Config) {
	ln := newPipeListener(addr)
	n.listeners[addr] = ln
	srv := &http.Server{Handler: h, ReadHeaderTimeout: time.Minute}
	n.servers = append(n.servers, srv)
	if tlsCfg != nil {
		srv.TLSConfig = tlsCfg
		go func() { _ = srv.ServeTLS(ln, "", "") }()
	} else {
		go func() { _ = srv.Serve(ln) }()
	}
}

func (n *SimNet) Close() {
	for _, s := range n.servers {
		_ = s.Close()
	}
	for _, l := range n.listeners {
		_ = l.Close()
	}
}

func simDial(ctx context.Context, network, addr string) (net.Conn, error) {
	n := curNet
	if n == nil {
		return nil, errors.New("sim: no network")
	}
	n.countDial()
	if n.DialFault != nil {
		if err := n.DialFault(addr); err != nil {
			return nil, err
		}
	}
	ln, ok := n.listeners[addr]
	if !ok {
		return nil, errors.New("sim: no route to host " + addr)
	}
	return ln.Dial(ctx)
}

var installOnce sync.Once

// installTransport replaces http.DefaultTransport once per process. inthttp.NewHTTPClient clones
// it for every handler, so every connection authservice makes goes through simDial.
func installTransport() {
	installOnce.Do(func() {
		tr := http.DefaultTransport.(*http.Transport).Clone()
		tr.DialContext = simDial
		tr.Proxy = nil
		tr.ForceAttemptHTTP2 = false
		http.DefaultTransport = tr
	})
}

//go:norace
func (n *SimNet) countDial() { n.Dials++ }
