//go:build verif

package verifsim

import (
	"fmt"
	"strconv"
	"strings"
	"time"
)

// The op interpreter of the "session world": browsers, an attacker and the clock acting on one
// replica. Ops are plain data (part of the plan / replay file).

type Agents struct {
	// Noise is sent in front of the browser's own cookies (other applications' cookies, valueless crumbs).
	Noise map[int]string
	// Scheme of the requests of a browser as Envoy reports it ("" = https).
	Scheme   map[int]string
	w        *World
	Browsers map[int]*Browser
	// history of session ids each browser held per filter (for "stale" cookies)
	PrevSID map[string][]string
	// last authorization request seen per browser/filter (for callback forging)
	LastAuth map[string]*AuthReq
	LastCB   map[string]string // last callback path+query used per browser/filter
}

func (w *World) NewAgents() *Agents {
	return &Agents{w: w, Browsers: map[int]*Browser{}, PrevSID: map[string][]string{}, LastAuth: map[string]*AuthReq{}, LastCB: map[string]string{}, Noise: map[int]string{}, Scheme: map[int]string{}}
}

func (a *Agents) B(id int) *Browser {
	b := a.Browsers[id]
	if b == nil {
		b = a.w.NewBrowser(id)
		a.Browsers[id] = b
	}
	b.Noise = a.Noise[id]
	b.Scheme = a.Scheme[id]
	return b
}

func key(b, f int) string { return fmt.Sprintf("%d/%d", b, f) }

func (a *Agents) hdrFor(b *Browser, f *FilterRT) {
	// chain selection headers: a request to one application does not carry the tenant header of another
	for _, o := range a.w.Filters {
		if m := o.Spec.Match; m != nil && !strings.HasPrefix(m.Header, ":") {
			delete(b.Hdr, strings.ToLower(m.Header))
		}
	}
	if m := f.Spec.Match; m != nil && !strings.HasPrefix(m.Header, ":") {
		v := m.Equality
		if v == "" {
			v = m.Prefix + "-x"
		}
		b.Hdr[strings.ToLower(m.Header)] = v
	}
}

func (a *Agents) sidOf(b *Browser, f *FilterRT) string {
	return b.SessionCookie(f.Spec.AppHost, f.Spec.CookieName())
}

func (a *Agents) noteSID(b *Browser, f *FilterRT) {
	sid := a.sidOf(b, f)
	k := key(b.ID, f.Idx)
	if sid != "" && (len(a.PrevSID[k]) == 0 || a.PrevSID[k][len(a.PrevSID[k])-1] != sid) {
		a.PrevSID[k] = append(a.PrevSID[k], sid)
	}
}

// Nav navigates with redirect following; remembers authorization requests and callbacks.
func (a *Agents) Nav(label string, bid, fi int, path string, hops int) *NavResult {
	f := a.w.Filters[fi]
	b := a.B(bid)
	a.hdrFor(b, f)
	res := b.Navigate(label, b.scheme(), f.Spec.AppHost, path, hops)
	for _, ar := range res.AuthReqs {
		a.LastAuth[key(bid, fi)] = ar
	}
	for _, r := range res.Recs {
		if pathComponent(r.Path) == f.Spec.CallbackPath {
			a.LastCB[key(bid, fi)] = r.Path
		}
	}
	a.noteSID(b, f)
	return res
}

// Begin performs the first leg of a login only (request -> redirect -> authorization at the IdP)
// and returns the callback path the provider would send the browser to.
func (a *Agents) Begin(label string, bid, fi int, path string) (string, *CheckRec) {
	f := a.w.Filters[fi]
	b := a.B(bid)
	a.hdrFor(b, f)
	rec := b.Send(label, b.scheme(), f.Spec.AppHost, path)
	a.noteSID(b, f)
	if rec.Class != "redirect-idp" {
		return "", rec
	}
	ar := f.Authorize(rec.Location, bid)
	a.LastAuth[key(bid, fi)] = ar
	if ar.Code == "" {
		return "", rec
	}
	_, _, cp, _ := splitURL(f.Spec.CallbackURI())
	cb := cp + cbSep(cp) + "code=" + qEsc(ar.Code) + "&state=" + qEsc(ar.Param("state"))
	a.LastCB[key(bid, fi)] = cb
	return cb, rec
}

// cookieFor builds the Cookie header for a raw request according to mode.
func (a *Agents) cookieFor(mode string, bid, fi int) (string, bool) {
	f := a.w.Filters[fi]
	b := a.B(bid)
	name := f.Spec.CookieName()
	switch {
	case mode == "" || mode == "own":
		return b.cookieHeader(f.Spec.AppHost), true
	case mode == "none":
		return "", true
	case mode == "garbage":
		return name + "=" + "zzzzzzzzzzzzzzzzzzzzzzzzzzzzzzzzzzzzzzzzzzzzzzzzzzzzzzzzzzzzzzzz", true
	case mode == "empty":
		return name + "=", true
	case mode == "malformed":
		return name + "; ;=;" + name + "==x=y; " + name, true
	case mode == "held":
		h := a.PrevSID[key(bid, fi)]
		if len(h) == 0 {
			return "", false
		}
		return name + "=" + h[len(h)-1], true
	case mode == "stale":
		h := a.PrevSID[key(bid, fi)]
		cur := a.sidOf(b, f)
		for i := len(h) - 1; i >= 0; i-- {
			if h[i] != cur {
				return name + "=" + h[i], true
			}
		}
		if len(h) > 0 {
			return name + "=" + h[0], true
		}
		return "", false
	case strings.HasPrefix(mode, "of:"):
		o, _ := strconv.Atoi(mode[3:])
		sid := a.sidOf(a.B(o), f)
		if sid == "" {
			return "", false
		}
		return name + "=" + sid, true
	case strings.HasPrefix(mode, "fixed:"):
		return name + "=" + mode[6:], true
	case strings.HasPrefix(mode, "from-filter:"):
		// the session id this browser holds at ANOTHER filter, presented under this filter's cookie name
		o, _ := strconv.Atoi(mode[12:])
		if o < 0 || o >= len(a.w.Filters) {
			return "", false
		}
		sid := a.sidOf(b, a.w.Filters[o])
		if sid == "" {
			return "", false
		}
		return name + "=" + sid, true
	case strings.HasPrefix(mode, "both-from:"):
		// own cookie for this filter (if any) plus the other filter's cookie under both names
		o, _ := strconv.Atoi(mode[10:])
		if o < 0 || o >= len(a.w.Filters) {
			return "", false
		}
		of := a.w.Filters[o]
		sid := a.sidOf(b, of)
		if sid == "" {
			return "", false
		}
		return of.Spec.CookieName() + "=" + sid + "; " + name + "=" + sid, true
	case strings.HasPrefix(mode, "foreign-first:"):
		// another browser's session id under a NEAR-MISS name placed in front of this browser's real cookie
		o, _ := strconv.Atoi(mode[14:])
		other := a.sidOf(a.B(o), f)
		own := a.sidOf(b, f)
		if other == "" || own == "" {
			return "", false
		}
		return "x" + name + "=" + other + "; " + name + "=" + own, true
	case strings.HasPrefix(mode, "name-variant:"):
		// the browser's own live session id under a NEAR-MISS of this filter's cookie name
		sid := a.sidOf(b, f)
		if sid == "" {
			return "", false
		}
		switch mode[13:] {
		case "prefix-x":
			return "x" + name + "=" + sid, true
		case "suffix-x":
			return name + "x=" + sid, true
		case "lower":
			return strings.ToLower(name) + "=" + sid, true
		case "drop-last":
			return name[:len(name)-1] + "=" + sid, true
		case "prefix-x-then-garbage":
			return "x" + name + "=" + sid + "; " + name + "=zzzzzzzzzzzzzzzzzzzzzzzzzzzzzzzz", true
		}
		return "", false
	case strings.HasPrefix(mode, "other-name:"):
		// the browser's own session id under another cookie name
		sid := a.sidOf(b, f)
		return mode[11:] + "=" + sid, sid != ""
	}
	return "", false
}

// Raw sends one request without following redirects, with a cookie chosen by mode. The response
// is NOT absorbed into the browser's jar unless mode is own.
func (a *Agents) Raw(label string, bid, fi int, path, mode string) *CheckRec {
	f := a.w.Filters[fi]
	b := a.B(bid)
	a.hdrFor(b, f)
	if mode == "" || mode == "own" {
		r := b.Send(label, b.scheme(), f.Spec.AppHost, path)
		a.noteSID(b, f)
		return r
	}
	ck, ok := a.cookieFor(mode, bid, fi)
	if !ok {
		return nil
	}
	hdr := map[string]string{}
	for k, v := range b.Hdr {
		hdr[k] = v
	}
	if ck != "" {
		if b.Noise != "" && (mode == "held" || mode == "stale") {
			ck = b.Noise + "; " + ck
		}
		hdr["cookie"] = ck
	}
	return a.w.Check(bid, label, b.scheme(), f.Spec.AppHost, path, hdr)
}

// Exec runs one op. It returns false when the op could not be applied in the current state (it is
// then skipped: plans stay valid under shrinking).
func (a *Agents) Exec(op *Op) bool {
	w := a.w
	a.route(op)
	switch op.Kind {
	case "nav":
		a.Nav("nav", op.B, op.F, op.Path, 6)
	case "send":
		return a.Raw("send:"+op.S, op.B, op.F, op.Path, op.S) != nil
	case "begin":
		a.Begin("begin", op.B, op.F, op.Path)
	case "finish": // complete a pending login with the browser's own callback
		cb := a.LastCB[key(op.B, op.F)]
		if cb == "" {
			return false
		}
		a.Raw("finish", op.B, op.F, cb, "own")
	case "logout":
		f := w.Filters[op.F]
		if f.Spec.Logout == nil {
			return false
		}
		p := f.Spec.Logout.Path
		if op.S != "" {
			p += op.S // query / fragment variants
		}
		a.Raw("logout", op.B, op.F, p, "own")
	case "client":
		// properties of a client: cookies of other applications it sends along, scheme it is reached by
		if v, ok := op.Args["noise"]; ok {
			a.Noise[op.B] = v
		}
		if v, ok := op.Args["scheme"]; ok {
			a.Scheme[op.B] = v
		}
	case "adv":
		w.Advance(time.Duration(op.D) * time.Second)
		w.logf("t=%s advance %ds", time.Since(w.start).Round(time.Millisecond), op.D)
	case "adv-ms":
		w.Advance(time.Duration(op.D) * time.Millisecond)
	case "idp":
		p := w.IdPs[w.Spec.Filters[op.F].IdP]
		for k, v := range op.Args {
			setKnob(&p.Knobs, k, v)
		}
		w.logf("idp %s knobs %v", p.Name, op.Args)
	case "rotate":
		p := w.IdPs[w.Spec.Filters[op.F].IdP]
		p.Rotate(op.S != "nopublish", op.S == "keep-old")
		w.countFault("jwks-rotate")
		w.logf("idp %s rotates signing key (%s)", p.Name, op.S)
	case "crash":
		w.CrashRestart()
		w.logf("crash-restart")
	case "cb":
		return a.execCB(op)
	case "par":
		a.Par(op.Par)
	default:
		return false
	}
	return true
}

// route selects the replica that serves the requests of op (R = 0: the primary).
func (a *Agents) route(op *Op) {
	w := a.w
	if len(w.Reps) < 2 {
		return
	}
	if t := w.Sim.Cur(); t != nil {
		if op.R > 0 && op.R < len(w.Reps) {
			w.taskRep[t.ID] = w.Reps[op.R]
		} else {
			delete(w.taskRep, t.ID)
		}
	}
}

// sprayReplicas turns a single-filter plan over a Redis store into a deployment of several replicas behind a
// load balancer without stickiness: every op that sends requests is served by a replica drawn from the seed.
func sprayReplicas(r *Rng, p *Plan, chance float64) {
	if p.Spec == nil || len(p.Spec.Filters) != 1 || !isRedisKind(p.Spec.Filters[0].Store) || p.Spec.HandlerMode || !r.Chance(chance) {
		return
	}
	p.Spec.Replicas = 2 + r.Intn(2)
	var walk func(ops []Op)
	walk = func(ops []Op) {
		for i := range ops {
			switch ops[i].Kind {
			case "nav", "send", "begin", "finish", "finish-held", "logout", "cb":
				ops[i].R = r.Intn(p.Spec.Replicas)
			case "par":
				walk(ops[i].Par)
			}
		}
	}
	walk(p.Ops)
}

// Par runs ops concurrently, one task each, interleaved by the seeded scheduler.
func (a *Agents) Par(ops []Op) {
	a.parWith(ops, func(a *Agents, op *Op) { a.Exec(op) })
}

func (a *Agents) parWith(ops []Op, exec func(*Agents, *Op)) {
	w := a.w
	if len(ops) == 0 {
		return
	}
	main := w.Sim.Cur()
	done := make(chan int, len(ops))
	w.Sim.On = true
	for i := range ops {
		op := &ops[i]
		t := w.Sim.NewTask(op.ID, fmt.Sprintf("%s#%d", op.Kind, op.ID))
		w.Sim.Go(t, func() {
			defer func() { done <- 1 }()
			exec(a, op)
		})
	}
	for range ops {
		<-done
	}
	w.Sim.On = false
	w.Sim.SetCur(main)
}

func setKnob(k *IdPKnobs, name, v string) {
	b := v == "true" || v == "1"
	n, _ := strconv.Atoi(v)
	switch name {
	case "expires_in":
		k.ExpiresIn = n
	case "id_ttl":
		k.IDTokenTTL = n
	case "omit_expires_in":
		k.OmitExpiresIn = b
	case "refresh":
		k.Refresh = v
	case "refresh_deny":
		k.RefreshDeny = b
	case "refresh_omit_id":
		k.RefreshOmitID = b
	case "refresh_omit_access":
		k.RefreshOmitAccess = b
	case "refresh_omit_expires":
		k.RefreshOmitExpires = b
	case "refresh_omit_rt":
		k.RefreshOmitRT = b
	case "refresh_nonce":
		k.RefreshNonce = v
	case "latency_us":
		k.LatencyUS = n
	case "byz":
		k.Byz = v
	case "byz_on":
		k.ByzOn = v
	case "token_type":
		k.TokenType = v
	case "extra":
		k.Extra = b
	case "aud_array":
		k.AudArray = b
	case "id_no_exp":
		k.IDNoExp = b
	}
}

// Rotate switches the IdP to its other EC signing key. publish: serve the new key at /jwks;
// keepOld: keep publishing the previous key too.
func (p *IdP) Rotate(publish, keepOld bool) {
	p.mu.Lock()
	defer p.mu.Unlock()
	old := p.Cur
	if p.Cur == 0 {
		p.Cur = 1
	} else {
		p.Cur = 0
	}
	if publish {
		if keepOld {
			p.Published = []*SignKey{p.Keys[p.Cur], p.Keys[old]}
		} else {
			p.Published = []*SignKey{p.Keys[p.Cur]}
		}
	}
	p.Rotations++
	p.LastRotation = time.Now()
}

// execCB delivers a (possibly forged, swapped or replayed) callback.
// Args: code = own | of:N | forged ; state = own | of:N | forged | near | upper ; variant = "" | reorder |
// dup-state-forged-first | dup-state-own-first | dup-code | case | empty | extra | missing-code | missing-state | fragment
// S = cookie mode.
func (a *Agents) execCB(op *Op) bool {
	f := a.w.Filters[op.F]
	authOf := func(spec string) *AuthReq {
		if strings.HasPrefix(spec, "of:") {
			n, _ := strconv.Atoi(spec[3:])
			return a.LastAuth[key(n, op.F)]
		}
		return a.LastAuth[key(op.B, op.F)]
	}
	code, state := "forged-code-000", "forgedstate0000000000000000000000"
	switch cs := op.Args["code"]; {
	case cs == "forged":
	case cs == "inject":
		// a forged code that tries to smuggle further form members into the token request
		code = "abc&code_verifier=evil-verifier-000000000000000000000000000000000000&redirect_uri=https://evil.test/cb&client_id=evil=1+2"
	default:
		ar := authOf(cs)
		if ar == nil || ar.Code == "" {
			return false
		}
		code = ar.Code
	}
	switch ss := op.Args["state"]; {
	case ss == "forged":
	default:
		base := ss
		if ss == "near" || ss == "upper" || ss == "truncated" || ss == "extended" {
			base = "own"
		}
		ar := authOf(base)
		if ar == nil || ar.Param("state") == "" {
			return false
		}
		state = ar.Param("state")
		if ss == "near" {
			b := []byte(state)
			if b[len(b)-1] == 'x' {
				b[len(b)-1] = 'y'
			} else {
				b[len(b)-1] = 'x'
			}
			state = string(b)
		} else if ss == "upper" {
			state = strings.ToUpper(state)
		} else if ss == "truncated" {
			state = state[:len(state)-1]
		} else if ss == "extended" {
			state += "0"
		}
	}
	_, _, cp, _ := splitURL(f.Spec.CallbackURI())
	sep := cbSep(cp)
	c, s := "code="+qEsc(code), "state="+qEsc(state)
	var q string
	switch op.Args["variant"] {
	case "reorder":
		q = s + "&" + c
	case "dup-state-forged-first":
		q = "state=forgedstate0000000000000000000000&" + s + "&" + c
	case "dup-state-own-first":
		q = s + "&state=forgedstate0000000000000000000000&" + c
	case "dup-code":
		q = c + "&code=forged-code-000&" + s
	case "case":
		q = "Code=" + qEsc(code) + "&State=" + qEsc(state)
	case "empty":
		q = "code=&state="
	case "extra":
		q = c + "&" + s + "&session_state=abc&iss=https%3A%2F%2Fidp"
	case "missing-code":
		q = s
	case "missing-state":
		q = c
	case "fragment":
		q = c + "&" + s + "#frag"
	default:
		q = c + "&" + s
	}
	rec := a.Raw("cb:"+op.Args["code"]+"/"+op.Args["state"]+"/"+op.Args["variant"], op.B, op.F, cp+sep+q, op.S)
	if rec != nil {
		for _, sp := range rec.Spy {
			if sp.Method == "GetAuthorizationState" {
				a.w.probe("crafted-callback-reached-state-lookup")
			}
		}
		if len(rec.TokenReqs) > 0 {
			a.w.probe("crafted-callback-reached-token-endpoint")
		}
	}
	return rec != nil
}
