//go:build verif

package verifsim

import (
	"encoding/json"
	"fmt"
	"os"
	"time"
)

// Plan is the unit of execution and the replay file format: everything a run does is a pure
// function of the plan and the code.
type Plan struct {
	Prop      string          `json:"prop"`
	Seed      uint64          `json:"seed"`
	Index     int             `json:"index"`
	Tier      string          `json:"tier,omitempty"`
	SchedSeed uint64          `json:"sched_seed"`
	Policy    int             `json:"policy"`
	Spec      *WorldSpec      `json:"spec,omitempty"`
	Ops       []Op            `json:"ops,omitempty"`
	Faults    []Fault         `json:"faults,omitempty"`
	Extra     json.RawMessage `json:"extra,omitempty"`
	Mode      string          `json:"mode,omitempty"`
}

// Op is one workload step. ID is stable under shrinking (it seeds the task's delay stream).
type Op struct {
	ID   int               `json:"id"`
	Kind string            `json:"kind"`
	B    int               `json:"b,omitempty"` // browser / agent
	Host string            `json:"host,omitempty"`
	Path string            `json:"path,omitempty"`
	D    int               `json:"d,omitempty"` // seconds (adv) or generic integer argument
	F    int               `json:"f,omitempty"` // filter index
	R    int               `json:"r,omitempty"` // replica index (worlds with several replicas)
	S    string            `json:"s,omitempty"` // generic string argument
	Args map[string]string `json:"args,omitempty"`
	Par  []Op              `json:"par,omitempty"` // concurrent tasks
}

type Result struct {
	Viol       []Violation    `json:"viol,omitempty"`
	Faults     map[string]int `json:"faults,omitempty"`
	Probes     map[string]int `json:"probes,omitempty"`
	TraceHash  uint64         `json:"trace_hash"`
	SchedHash  uint64         `json:"sched_hash"`
	StateHash  uint64         `json:"state_hash"`
	Nontrivial bool           `json:"nontrivial"`
	SimSecs    float64        `json:"sim_secs"`
	Steps      int            `json:"steps"`
	Log        []string       `json:"log,omitempty"`
	Infra      string         `json:"infra,omitempty"` // harness/infrastructure problem: exit 2, never a violation
	Summary    string         `json:"summary,omitempty"`
	// PlanFaults, when set, are the faults of the failing sub-run (systematic sweep): the replay
	// file is the plan with these faults.
	PlanFaults []Fault `json:"plan_faults,omitempty"`
}

type PropDef struct {
	ID  string
	Gen func(r *Rng, tier string, idx int) *Plan
	Run func(p *Plan) *Result
	// NoBubble runs the plan outside a synctest bubble (the property manages bubbles itself).
	NoBubble bool
}

var props = map[string]*PropDef{}

func register(d *PropDef) { props[d.ID] = d }

// answersStable re-inspects every answer returned during the run: an answer that changed after it was
// handed back (shared backing storage between responses) would reach the user agent with another request's
// Location or cookie.
func (w *World) answersStable() {
	if w.Lean {
		return
	}
	for _, c := range w.Checks {
		if c.Resp == nil || c.Class == "ok" || c.Class == "panic" {
			continue
		}
		d := c.Resp.GetDeniedResponse()
		loc := ""
		if l := hdrVals(d.GetHeaders(), "location"); len(l) > 0 {
			loc = l[0]
		}
		sc := hdrVals(d.GetHeaders(), "set-cookie")
		if loc != c.Location || len(sc) != len(c.SetCookie) || (len(sc) > 0 && sc[0] != c.SetCookie[0]) {
			detail := fmt.Sprintf("check #%d: Location/Set-Cookie of the answer read %q / %v when it was returned and %q / %v at the end of the run", c.N, c.Location, c.SetCookie, loc, sc)
			w.violate("C13", "answer-changed-after-it-was-returned", detail)
			// the answer on the wire is the changed one: what it no longer says is judged under the property concerned
			switch c.Class {
			case "logout":
				w.violate("C09", "logout-answer-changed-after-it-was-returned", detail)
			case "redirect-idp":
				w.violate("C05", "login-redirect-changed-after-it-was-returned", detail)
			}
			return
		}
	}
}

func (w *World) result() *Result {
	w.answersStable()
	r := &Result{Viol: w.Viol, Faults: w.FaultsFired, Probes: w.Probes, SimSecs: time.Since(w.start).Seconds(), Steps: w.Sim.totalSteps(), Log: w.evlog}
	r.TraceHash = hash64(w.TraceSig())
	r.SchedHash = hash64(w.Sim.TraceString())
	if w.Sim.Overrun {
		r.Infra = "scheduler step budget exceeded"
	}
	if w.Sim.SlotOverflow {
		r.Infra = "a task id does not fit a scheduling slot"
	}
	if os.Getenv("VERIF_TRACE") != "" {
		r.Log = append(r.Log, "sched: "+w.Sim.TraceDebug())
	}
	return r
}

// only keeps the violations of one property (each check reports its own property).
func (r *Result) only(prop string) *Result {
	var v []Violation
	other := 0
	for _, x := range r.Viol {
		if x.Prop == prop {
			v = append(v, x)
		} else {
			other++
		}
	}
	r.Viol = v
	if other > 0 {
		if r.Probes == nil {
			r.Probes = map[string]int{}
		}
		r.Probes["other-property-violations-seen"] += other
	}
	return r
}
