//go:build verif

package verifsim

import (
	"fmt"
	"strings"
)

// C01 — Fail-closed: OK only for a live session with fresh or just-refreshed tokens.
// Seeded histories (honest browsing + attacker + clock + IdP behaviour changes) in a fault-free and
// a fault-injecting configuration, plus a systematic single/pair fault sweep over every seam call
// of recorded scenarios, plus crash-restart at seam calls. The oracle is monOK (monitors.go).

func init() {
	register(&PropDef{ID: "C01", Gen: genC01, Run: runC01, NoBubble: true})
}

var attackPaths = []string{"/admin?x=.css", "/admin#.css", "/admin?/static/", "/static", "/STATIC/x.png", "/a.css/b", "/x?y=.js#.png", "/api/v1?redirect=/static/a.png", "/%2Fstatic/x"}
var publicPaths = []string{"/static/app.js", "/x.css", "/img/logo.png", "/a.css?", "/static/"}
var storeMethods = []string{"GetTokenResponse", "SetTokenResponse", "GetAuthorizationState", "SetAuthorizationState", "ClearAuthorizationState", "RemoveSession"}
var tokenFaults = []string{"reset-before", "reset-after", "500", "503", "truncated", "garbage"}

func genHistory(r *Rng, spec *WorldSpec, n int, withCrash bool) []Op {
	var ops []Op
	id := 0
	nid := func() int { id++; return id }
	target := genTarget(r)
	k := spec.IdPs[0].Knobs
	life := k.IDTokenTTL
	if k.ExpiresIn < life {
		life = k.ExpiresIn
	}
	hasLogout := spec.Filters[0].Logout != nil
	cb := spec.Filters[0].CallbackPath
	// some clients send other applications' cookies (and valueless crumbs) in front of ours
	for b := 0; b < 3; b++ {
		if r.Chance(0.35) {
			ops = append(ops, Op{ID: nid(), Kind: "client", B: b, Args: map[string]string{"noise": r.Pick([]string{"darkmode; lang=en", "theme=dark; _ga=GA1.2.3", ";; a=b", "x=\"y\"; flag", "consent"})}})
		}
	}
	for i := 0; i < n; i++ {
		b := r.Intn(2)
		switch r.Intn(20) {
		case 0, 1, 2:
			ops = append(ops, Op{ID: nid(), Kind: "nav", B: b, Path: target})
		case 3:
			ops = append(ops, Op{ID: nid(), Kind: "send", B: b, Path: target, S: "own"})
		case 4:
			ops = append(ops, Op{ID: nid(), Kind: "send", B: 2, Path: r.Pick(append(attackPaths, target)), S: r.Pick([]string{"none", "garbage", "empty", "malformed", "of:0", "of:1", "fixed:attackerchosen0000000000000000000000000000000000000000000000000000"})})
		case 16:
			// a live session id under a cookie name that is NOT the filter's: must not be honoured
			ops = append(ops, Op{ID: nid(), Kind: "send", B: b, Path: target, S: r.Pick([]string{"other-name:authservice-session-id-cookie", "other-name:__Host-other-authservice-session-id-cookie", "name-variant:prefix-x", "name-variant:suffix-x", "name-variant:lower", "name-variant:drop-last", "name-variant:prefix-x-then-garbage"})})
		case 18:
			// the provider answers the next token request with 200 and a body that grants nothing
			ops = append(ops, Op{ID: nid(), Kind: "idp-raw", S: r.Pick([]string{`{"error":"invalid_grant"}`, `{}`, `{"error":"invalid_grant","error_description":"Session not active"}`}), D: 1},
				Op{ID: nid(), Kind: "adv", D: life + r.Range(1, 20)}, Op{ID: nid(), Kind: "send", B: b, Path: target, S: "own"}, Op{ID: nid(), Kind: "send", B: b, Path: target, S: "own"})
		case 19:
			// short pauses: a few seconds matter for short-lived access tokens
			ops = append(ops, Op{ID: nid(), Kind: "adv", D: r.Range(1, 8)}, Op{ID: nid(), Kind: "send", B: b, Path: target, S: "own"})
		case 17:
			if r.Chance(0.5) {
				ops = append(ops, Op{ID: nid(), Kind: "idp", Args: map[string]string{"byz": r.Pick([]string{"foreign-key-same-kid", "alg-none", "aud-foreign", "tampered-payload", ""}), "byz_on": "refresh"}})
			}
		case 5:
			ops = append(ops, Op{ID: nid(), Kind: "send", B: b, Path: r.Pick(append(attackPaths, target)), S: "stale"})
		case 6:
			ops = append(ops, Op{ID: nid(), Kind: "send", B: 2, Path: r.Pick(publicPaths), S: "none"})
		case 7:
			// forged callbacks
			q := r.Pick([]string{"?code=forged&state=forged", "?code=&state=", "?state=x", "", "?code=a&code=b&state=c&state=d", "?error=access_denied&state=x", "?%zz"})
			ops = append(ops, Op{ID: nid(), Kind: "send", B: r.Intn(3), Path: cb + q, S: r.Pick([]string{"own", "none", "of:0", "stale"})})
		case 8:
			if hasLogout {
				ops = append(ops, Op{ID: nid(), Kind: "logout", B: b})
			}
		case 9:
			// advance to just around the token expiry
			ops = append(ops, Op{ID: nid(), Kind: "adv", D: life + r.Range(-3, 30)})
		case 10:
			ops = append(ops, Op{ID: nid(), Kind: "adv", D: r.Range(1, life)})
		case 11:
			ops = append(ops, Op{ID: nid(), Kind: "idp", Args: map[string]string{r.Pick([]string{"refresh_deny", "refresh_omit_id", "refresh_omit_access", "refresh_omit_expires", "id_no_exp"}): r.Pick([]string{"true", "false"})}})
		case 12:
			ops = append(ops, Op{ID: nid(), Kind: "rotate", S: r.Pick([]string{"publish", "nopublish", "keep-old"})})
		case 13:
			if withCrash {
				ops = append(ops, Op{ID: nid(), Kind: "crash"})
			}
		case 14:
			ops = append(ops, Op{ID: nid(), Kind: "begin", B: b, Path: target})
		case 15:
			ops = append(ops, Op{ID: nid(), Kind: "finish", B: b})
		}
	}
	return ops
}

func genC01(r *Rng, tier string, idx int) *Plan {
	p := &Plan{SchedSeed: r.U64()}
	p.Spec = genSpec(r, genOpts{Filters: 1, AllowRedis: true, Triggers: true})
	k := &p.Spec.IdPs[0].Knobs
	k.IDTokenTTL = []int{60, 300, 600}[r.Intn(3)]
	k.ExpiresIn = []int{2, 5, 60, 300, 600}[r.Intn(5)]
	if r.Chance(0.7) && k.Refresh == "none" {
		k.Refresh = "static"
	}
	switch idx % 4 {
	case 0:
		p.Mode = "fault-free"
		p.Ops = genHistory(r, p.Spec, r.Range(5, 40), true)
	case 1, 2:
		p.Mode = "fault-injecting"
		p.Ops = genHistory(r, p.Spec, r.Range(5, 30), true)
		nf := r.Range(1, 3)
		for i := 0; i < nf; i++ {
			switch r.Intn(10) {
			case 0, 1, 2, 3, 4:
				kind := r.Pick([]string{"err-before", "err-after", "err-before", "err-after", "evict", "crash-before", "crash-after", "redis-down"})
				if isRedisKind(p.Spec.Filters[0].Store) && r.Chance(0.3) {
					kind = fmt.Sprintf("redis-torn:%d", r.Range(2, 8)) // Redis goes away between two commands of one store call
				}
				if p.Spec.Filters[0].Store == "redis" && r.Chance(0.2) {
					kind = "corrupt:" + r.Pick([]string{"id_token", "access_token_expiry", "time_added", "refresh_token", "state"})
				}
				p.Faults = append(p.Faults, Fault{Site: "store." + r.Pick(storeMethods), Nth: r.Range(1, 6), Kind: kind})
			case 5, 6, 7:
				p.Faults = append(p.Faults, Fault{Site: "idp.token", Nth: r.Range(1, 5), Kind: r.Pick(tokenFaults)})
				if r.Chance(0.3) {
					// Envoy's ext_authz timeout fires while the check is running: its context is cancelled at a seam call
					p.Faults[len(p.Faults)-1] = Fault{Site: r.Pick([]string{"idp.token", "store." + r.Pick(storeMethods)}), Nth: r.Range(1, 6), Kind: "ctx-cancel"}
				}
			case 8:
				p.Faults = append(p.Faults, Fault{Site: "jwks.get", Nth: r.Range(1, 4), Kind: "err"})
			case 9:
				p.Faults = append(p.Faults, Fault{Site: "idp.jwks", Nth: r.Range(1, 2), Kind: "500"})
			}
		}
	case 3:
		// systematic sweep over a short scenario that passes through every seam: login, request,
		// expiry, refresh, request, logout, request
		p.Mode = "sweep"
		if k.Refresh == "none" {
			k.Refresh = "rotate"
		}
		p.Spec.Filters[0].Logout = &LogoutCfg{Path: "/logout", RedirectURI: "https://idp-a.test/ended"}
		t := genTarget(r)
		life := k.IDTokenTTL
		if k.ExpiresIn < life {
			life = k.ExpiresIn
		}
		p.Ops = []Op{{ID: 1, Kind: "nav", Path: t}, {ID: 2, Kind: "send", Path: t, S: "own"}, {ID: 3, Kind: "adv", D: life + 5}, {ID: 4, Kind: "send", Path: t, S: "own"},
			{ID: 5, Kind: "send", Path: t, S: "own"}, {ID: 6, Kind: "logout"}, {ID: 7, Kind: "send", Path: t, S: "stale"}, {ID: 8, Kind: "nav", Path: t}}
		if r.Bool() {
			p.Ops = append(p.Ops[:4], append([]Op{{ID: 9, Kind: "idp", Args: map[string]string{"refresh_deny": "true"}}, {ID: 10, Kind: "adv", D: life + 5}, {ID: 11, Kind: "send", Path: t, S: "own"}}, p.Ops[4:]...)...)
		}
	}
	sprayReplicas(r, p, 0.4)
	return p
}

// runSession executes a session-world plan in one bubble and returns the world.
func runSession(p *Plan, faults []Fault) (w *World, infra string) {
	inBubble(func() {
		w = NewWorld(p.Spec, p.SchedSeed, p.Policy, faults)
		w.StartNet(nil)
		defer w.Close()
		w.Boot()
		if w.Rep.BootErr != nil {
			infra = "generated configuration was rejected: " + w.Rep.BootErr.Error()
			return
		}
		a := w.NewAgents()
		for i := range p.Ops {
			c15Exec(a, &p.Ops[i])
		}
		w.SimSecs = w.result().SimSecs
	})
	return w, infra
}

func c01Result(w *World, prop string) *Result {
	res := w.result().only(prop)
	res.SimSecs = w.SimSecs
	faulted, attacker := 0, 0
	for _, c := range w.Checks {
		if len(c.Faults) > 0 || c.Perturbed {
			faulted++
		}
		if c.Browser == 2 || strings.HasPrefix(c.Label, "send:stale") {
			attacker++
		}
	}
	res.Nontrivial = w.Probes["justified-ok"] > 0 && (faulted > 0 || attacker > 0)
	return res
}

func runC01(p *Plan) *Result {
	if p.Mode != "sweep" {
		w, infra := runSession(p, p.Faults)
		if infra != "" {
			return &Result{Infra: infra}
		}
		return c01Result(w, "C01")
	}
	// ---- systematic sweep: record the seam calls fault-free, then fail each one, singly and in pairs
	if len(p.Faults) > 0 {
		// replay of one swept configuration
		w, infra := runSession(p, p.Faults)
		if infra != "" {
			return &Result{Infra: infra}
		}
		return c01Result(w, "C01")
	}
	base, infra := runSession(p, nil)
	if infra != "" {
		return &Result{Infra: infra}
	}
	res := c01Result(base, "C01")
	if len(res.Viol) > 0 {
		return res
	}
	// enumerate (site, nth)
	type sn struct {
		site string
		nth  int
	}
	var calls []sn
	cnt := map[string]int{}
	for _, s := range base.sites {
		cnt[s]++
		calls = append(calls, sn{s, cnt[s]})
	}
	kindsFor := func(site string) []string {
		switch {
		case strings.HasPrefix(site, "store."):
			return []string{"err-before", "err-after"}
		case site == "idp.token":
			return []string{"reset-before", "reset-after", "500"}
		case site == "net.dial":
			return []string{"refused"}
		default:
			return []string{"err"}
		}
	}
	merge := func(w *World) bool {
		r := c01Result(w, "C01")
		res.Steps += r.Steps
		res.SimSecs += r.SimSecs
		for k, v := range r.Faults {
			res.Faults[k] += v
		}
		for k, v := range r.Probes {
			res.Probes[k] += v
		}
		res.Probes["sweep-reruns"]++
		if len(r.Viol) > 0 {
			res.Viol = r.Viol
			res.Log = r.Log
			return true
		}
		return false
	}
	for _, c := range calls {
		kinds := kindsFor(c.site)
		if strings.HasPrefix(c.site, "store.") && isRedisKind(p.Spec.Filters[0].Store) {
			// Redis going away before the k-th command of this call, for every k the call has
			for k := 2; k <= 10; k++ {
				kinds = append(kinds, fmt.Sprintf("redis-torn:%d", k))
			}
		}
		for _, kind := range kinds {
			fs := []Fault{{Site: c.site, Nth: c.nth, Kind: kind}}
			w, infra := runSession(p, fs)
			if infra != "" {
				return &Result{Infra: infra}
			}
			res.Probes["sweep-single-faults"]++
			if merge(w) {
				res.PlanFaults = fs
				return res
			}
			if strings.HasPrefix(kind, "redis-torn:") && w.FaultsFired["redis-torn-store-call"] == 0 {
				break // the call has fewer commands than k
			}
		}
	}
	// pairs: complete for short scenarios in the thorough tier, sampled otherwise
	r := NewRng(p.SchedSeed)
	npairs := 40
	if p.Tier == "thorough" {
		npairs = 400
	}
	for i := 0; i < npairs && len(calls) > 1; i++ {
		a, b := calls[r.Intn(len(calls))], calls[r.Intn(len(calls))]
		if a == b {
			continue
		}
		fs := []Fault{{Site: a.site, Nth: a.nth, Kind: r.Pick(kindsFor(a.site))}, {Site: b.site, Nth: b.nth, Kind: r.Pick(kindsFor(b.site))}}
		w, infra := runSession(p, fs)
		if infra != "" {
			return &Result{Infra: infra}
		}
		res.Probes["sweep-pair-faults"]++
		if merge(w) {
			res.PlanFaults = fs
			return res
		}
	}
	res.Nontrivial = true
	res.Summary = fmt.Sprintf("sweep over %d seam calls: %s", len(calls), describeSpec(p.Spec))
	return res
}
