//go:build verif

package verifsim

import (
	"crypto/x509"
	"encoding/json"
	"encoding/pem"
	"fmt"
	"strings"
	"time"
)

// C02 — Only IdP-issued, validated tokens are bound to a session and forwarded.
// The IdP of the filter turns Byzantine for a seeded subset of its token answers (login and refresh
// path), mixed with honest answers. The adversarial grammar lives here; the oracle is the
// independent std-lib verifier in monitors.go (monStores / monOKHeaders).

// claim-type productions: otherwise valid, honestly signed tokens whose claims have unexpected types
var typeProductions = []string{"nonce-number", "nonce-array", "nonce-object", "nonce-null", "nonce-bool", "aud-number", "aud-object", "aud-mixed-array",
	"exp-string", "exp-huge", "exp-negative", "iat-object", "claims-array", "header-array", "header-crit",
	// further standard claims (OIDC Core 2) carrying a JSON value of another type than the specified one
	"azp-array", "azp-object", "auth_time-array", "auth_time-object", "sub-object", "iss-array", "amr-string", "acr-object", "iat-string", "nbf-array"}

var byzProductions = []string{
	"alg-none", "alg-none-caps", "hs256-pubkey-jwk", "hs256-pubkey-pem", "foreign-key-same-kid", "foreign-key-other-kid", "foreign-key-no-kid",
	"tampered-payload", "tampered-signature", "stripped-signature", "extra-dots", "two-parts", "jws-json", "nested", "empty", "garbage", "whitespace",
	"aud-absent", "aud-foreign", "aud-near-miss", "aud-array-without", "aud-substring",
	"nonce-absent", "nonce-foreign", "nonce-empty", "nonce-previous", "other-session-token", "wrong-idp-key",
	"nonce-number", "nonce-array", "nonce-object", "nonce-null", "nonce-bool", "other-filters-key", "retired-key",
}

// productions whose token is honestly signed and acceptable on the refresh path (nonce is only
// required at login), so that they do not count as forged there
var loginOnlyProductions = map[string]bool{"nonce-absent": true, "nonce-empty": true, "nonce-foreign": true, "nonce-previous": true, "other-session-token": true}

func init() {
	byzImpl = byzantineAnswer
	register(&PropDef{ID: "C02", Gen: genC02, Run: sessionRunner("C02", ntC02), NoBubble: true})
}

func pubPEM(k *SignKey) []byte {
	var der []byte
	if k.EC != nil {
		der, _ = x509.MarshalPKIXPublicKey(&k.EC.PublicKey)
	} else {
		der, _ = x509.MarshalPKIXPublicKey(&k.RSA.PublicKey)
	}
	return pem.EncodeToMemory(&pem.Block{Type: "PUBLIC KEY", Bytes: der})
}

func byzantineAnswer(p *IdP, ans map[string]any, ch *chainRec, login bool) {
	honest, _ := ans["id_token"].(string)
	if honest == "" {
		return
	}
	prod := p.Knobs.Byz
	if prod == "random" {
		prod = byzProductions[p.w.valRng.Intn(len(byzProductions))]
	}
	claims := jwtClaims(honest)
	key := p.signKey()
	foreign := penv.ecKeys[len(penv.ecKeys)-1]
	parts := strings.Split(honest, ".")
	forged := honest
	signed := func(c map[string]any) string { return SignJWT(key, nil, c) }
	clone := func() map[string]any {
		c := map[string]any{}
		for k, v := range claims {
			c[k] = v
		}
		return c
	}
	switch prod {
	case "alg-none":
		hb, _ := json.Marshal(map[string]any{"alg": "none", "typ": "JWT"})
		forged = b64(hb) + "." + parts[1] + "."
	case "alg-none-caps":
		hb, _ := json.Marshal(map[string]any{"alg": "NoNe", "typ": "JWT", "kid": key.Kid})
		forged = b64(hb) + "." + parts[1] + "."
	case "hs256-pubkey-jwk":
		jb, _ := json.Marshal(key.JWK(p.Knobs.JWKSAlg, true))
		forged = SignHS256(jb, map[string]any{"kid": key.Kid}, claims)
	case "hs256-pubkey-pem":
		forged = SignHS256(pubPEM(key), map[string]any{"kid": key.Kid}, claims)
	case "foreign-key-same-kid":
		forged = SignJWT(foreign, map[string]any{"kid": key.Kid}, claims)
	case "foreign-key-other-kid":
		forged = SignJWT(foreign, map[string]any{"kid": "evil"}, claims)
	case "foreign-key-no-kid":
		forged = SignJWT(foreign, map[string]any{"kid": nil}, claims)
	case "other-filters-key":
		// signed with the (published, honest) key of ANOTHER filter's provider of the same deployment
		var ok *SignKey
		for _, o := range p.w.IdPs {
			if o != p {
				ok = o.signKey()
			}
		}
		if ok == nil {
			ok = foreign
		}
		if p.w.valRng.Bool() {
			forged = SignJWT(ok, nil, claims) // with that key's own kid
		} else {
			forged = SignJWT(ok, map[string]any{"kid": key.Kid}, claims) // under our kid
		}
	case "retired-key":
		// honestly made by the provider's previous (or never published) signing key: whether the filter may accept it
		// depends on the key set it is configured with - static set, or the published set once the fetcher has caught up
		retired := p.Keys[1]
		if p.Cur == 1 {
			retired = p.Keys[0]
		}
		forged = SignJWT(retired, map[string]any{"kid": retired.Kid}, claims)
		ans["id_token"] = forged
		delete(p.issued, honest)
		ch.LastID = forged
		p.w.countFault("byz:" + prod)
		p.issued[forged] = &issuedTok{Token: forged, Chain: ch.ID, Exp: p.issued_exp(forged), Kind: "id", knownExp: true, Key: retired}
		if p.curTR != nil {
			p.curTR.SignedBy = retired
		}
		return
	case "wrong-idp-key":
		// a key of another provider of the same deployment
		forged = SignJWT(penv.ecKeys[(p.Cur+3)%len(penv.ecKeys)], map[string]any{"kid": key.Kid}, claims)
	case "tampered-payload":
		c := clone()
		c["sub"] = "admin"
		cb, _ := json.Marshal(c)
		forged = parts[0] + "." + b64(cb) + "." + parts[2]
	case "tampered-signature":
		sig, _ := unb64(parts[2])
		sig[len(sig)/2] ^= 0x01
		forged = parts[0] + "." + parts[1] + "." + b64(sig)
	case "stripped-signature":
		forged = parts[0] + "." + parts[1] + "."
	case "extra-dots":
		forged = honest + ".AAAA"
	case "two-parts":
		forged = parts[0] + "." + parts[1]
	case "jws-json":
		jb, _ := json.Marshal(map[string]any{"payload": parts[1], "protected": parts[0], "signature": parts[2]})
		forged = string(jb)
	case "nested":
		hb, _ := json.Marshal(map[string]any{"alg": "none", "cty": "JWT"})
		forged = b64(hb) + "." + b64([]byte(honest)) + "."
	case "empty":
		forged = ""
	case "garbage":
		forged = "this.is.not-a-jwt"
	case "whitespace":
		forged = " " + parts[0] + " ." + parts[1] + ".\n" + parts[2]
	case "aud-absent":
		c := clone()
		delete(c, "aud")
		forged = signed(c)
	case "aud-foreign":
		c := clone()
		c["aud"] = "some-other-client"
		forged = signed(c)
	case "aud-near-miss":
		c := clone()
		c["aud"] = p.ClientID + "x"
		forged = signed(c)
	case "aud-substring":
		c := clone()
		c["aud"] = "x" + p.ClientID
		forged = signed(c)
	case "aud-array-without":
		c := clone()
		c["aud"] = []string{"a", "b", strings.ToUpper(p.ClientID) + "-"}
		forged = signed(c)
	case "nonce-absent":
		c := clone()
		delete(c, "nonce")
		forged = signed(c)
	case "nonce-foreign":
		c := clone()
		c["nonce"] = "foreignnonce0000000000000000000000"
		forged = signed(c)
	case "nonce-empty":
		c := clone()
		c["nonce"] = ""
		forged = signed(c)
	case "nonce-previous":
		prev := ""
		for _, o := range p.chains {
			if o.ID != ch.ID {
				prev = o.Nonce
			}
		}
		if prev == "" {
			prev = "previousnonce000000000000000000000"
		}
		c := clone()
		c["nonce"] = prev
		forged = signed(c)
	case "nonce-number":
		c := clone()
		c["nonce"] = 12345
		forged = signed(c)
	case "nonce-array":
		c := clone()
		c["nonce"] = []string{fmt.Sprint(claims["nonce"])}
		forged = signed(c)
	case "nonce-object":
		c := clone()
		c["nonce"] = map[string]any{"v": claims["nonce"]}
		forged = signed(c)
	case "nonce-null":
		c := clone()
		c["nonce"] = nil
		forged = signed(c)
	case "nonce-bool":
		c := clone()
		c["nonce"] = true
		forged = signed(c)
	case "aud-number":
		c := clone()
		c["aud"] = 42
		forged = signed(c)
	case "aud-object":
		c := clone()
		c["aud"] = map[string]any{"x": p.ClientID}
		forged = signed(c)
	case "aud-mixed-array":
		c := clone()
		c["aud"] = []any{1, nil, p.ClientID, map[string]any{}}
		forged = signed(c)
	case "exp-string":
		c := clone()
		c["exp"] = "tomorrow"
		forged = signed(c)
	case "exp-huge":
		c := clone()
		c["exp"] = 1e300
		forged = signed(c)
	case "exp-negative":
		c := clone()
		c["exp"] = -1
		forged = signed(c)
	case "iat-object":
		c := clone()
		c["iat"] = map[string]any{}
		forged = signed(c)
	case "azp-array", "azp-object", "auth_time-array", "auth_time-object", "sub-object", "iss-array", "amr-string", "acr-object", "iat-string", "nbf-array":
		c := clone()
		name, typ, _ := strings.Cut(prod, "-")
		switch typ {
		case "array":
			c[name] = []any{p.ClientID, "x"}
		case "object":
			c[name] = map[string]any{"v": p.ClientID}
		default:
			c[name] = "1999-12-31"
		}
		forged = signed(c)
	case "claims-array":
		forged = parts[0] + "." + b64([]byte("[1,2,3]")) + "." + parts[2]
	case "header-array":
		forged = b64([]byte("[]")) + "." + parts[1] + "." + parts[2]
	case "header-crit":
		forged = SignJWT(key, map[string]any{"crit": []string{"exp"}, "exp": 1, "jwk": map[string]any{"kty": "oct"}}, claims)
	case "other-session-token":
		other := ""
		for _, o := range p.chains {
			if o.ID != ch.ID && o.LastID != "" {
				other = o.LastID
			}
		}
		if other == "" {
			c := clone()
			c["nonce"] = "othersessionnonce00000000000000000"
			c["sub"] = "user-other"
			other = signed(c)
		}
		forged = other
	default:
		return
	}
	ans["id_token"] = forged
	delete(p.issued, honest) // the honest token never left the provider
	ch.LastID = forged
	p.w.countFault("byz:" + prod)
	if p.curTR != nil {
		if !login && loginOnlyProductions[prod] {
			// acceptable on the refresh path: honestly signed, audience fine, nonce not required there
			p.curTR.Forged = ""
			if it := p.issued[forged]; it == nil {
				p.issued[forged] = &issuedTok{Token: forged, Chain: ch.ID, Exp: p.issued_exp(forged), Kind: "id", knownExp: true, Key: key}
			}
		} else {
			p.curTR.Forged = prod
		}
	}
}

func (p *IdP) issued_exp(tok string) (t time.Time) {
	c := jwtClaims(tok)
	if c == nil {
		return
	}
	if f, ok := c["exp"].(float64); ok {
		return time.Unix(int64(f), 0)
	}
	return
}

func genC02(r *Rng, tier string, idx int) *Plan {
	p := &Plan{SchedSeed: r.U64(), Mode: "byzantine"}
	if idx%5 == 4 {
		// two filters with different static key sets: whatever one filter has validated must not help the other
		p.Mode = "byzantine-two-filters"
		p.Spec = genSpec(r, genOpts{Filters: 2, AllowRedis: false, NoDiscovery: true, NoFetch: r.Bool()})
		p.Spec.Filters[0].Store, p.Spec.Filters[1].Store = "redis", "redis2" // separate stores: isolation is C18's subject
		id := 0
		nid := func() int { id++; return id }
		t := genTarget(r)
		first := r.Intn(2)
		p.Ops = append(p.Ops, Op{ID: nid(), Kind: "nav", B: 0, F: first, Path: t}, Op{ID: nid(), Kind: "send", B: 0, F: first, Path: t, S: "own"})
		other := 1 - first
		pr := r.Pick([]string{"other-filters-key", "other-filters-key", "foreign-key-same-kid", "aud-foreign", "wrong-idp-key"})
		p.Ops = append(p.Ops, Op{ID: nid(), Kind: "idp", F: other, Args: map[string]string{"byz": pr, "byz_on": "login"}},
			Op{ID: nid(), Kind: "nav", B: 1, F: other, Path: t}, Op{ID: nid(), Kind: "send", B: 1, F: other, Path: t, S: "own"},
			Op{ID: nid(), Kind: "idp", F: other, Args: map[string]string{"byz": "", "byz_on": "both"}},
			Op{ID: nid(), Kind: "nav", B: 2, F: other, Path: t}, Op{ID: nid(), Kind: "send", B: 2, F: other, Path: t, S: "own"})
		return p
	}
	if idx%5 == 3 && idx%2 == 0 {
		// the provider retires a signing key; long after every fetch interval has passed an answer arrives whose ID token
		// was made with the retired key (or, with a static key set, with a key that was never configured)
		p.Mode = "retired-signing-key"
		p.Spec = genSpec(r, genOpts{Filters: 1, AllowRedis: true})
		f := &p.Spec.Filters[0]
		f.JWKSFetch = r.Chance(0.7)
		if f.JWKSFetch {
			f.JWKSInterval = []int{0, 60, 600}[r.Intn(3)]
		}
		k := &p.Spec.IdPs[0].Knobs
		k.Alg = "ES256"
		k.Refresh = []string{"static", "rotate"}[r.Intn(2)]
		k.IDTokenTTL, k.ExpiresIn, k.OmitExpiresIn = 300, 300, false
		id := 0
		nid := func() int { id++; return id }
		t := genTarget(r)
		p.Ops = append(p.Ops, Op{ID: nid(), Kind: "nav", B: 0, Path: t}, Op{ID: nid(), Kind: "send", B: 0, Path: t, S: "own"})
		p.Ops = append(p.Ops, Op{ID: nid(), Kind: "rotate", S: r.Pick([]string{"publish", "publish", "keep-old"})})
		// keep the session alive by refreshing while the key sets catch up (each step ends after the tokens' expiry)
		steps := r.Range(9, 12)
		for i := 0; i < steps; i++ {
			p.Ops = append(p.Ops, Op{ID: nid(), Kind: "adv", D: 301}, Op{ID: nid(), Kind: "send", B: 0, Path: t, S: "own"})
		}
		on := r.Pick([]string{"login", "refresh"})
		p.Ops = append(p.Ops, Op{ID: nid(), Kind: "idp", Args: map[string]string{"byz": "retired-key", "byz_on": on}})
		if on == "login" {
			p.Ops = append(p.Ops, Op{ID: nid(), Kind: "nav", B: 1, Path: t}, Op{ID: nid(), Kind: "send", B: 1, Path: t, S: "own"})
		} else {
			p.Ops = append(p.Ops, Op{ID: nid(), Kind: "adv", D: 301}, Op{ID: nid(), Kind: "send", B: 0, Path: t, S: "own"}, Op{ID: nid(), Kind: "send", B: 0, Path: t, S: "own"})
		}
		return p
	}
	p.Spec = genSpec(r, genOpts{Filters: 1, AllowRedis: true})
	p.Spec.HandlerMode = r.Chance(0.25)
	k := &p.Spec.IdPs[0].Knobs
	k.Refresh = []string{"static", "rotate"}[r.Intn(2)]
	k.IDTokenTTL = []int{60, 300}[r.Intn(2)]
	k.ExpiresIn = []int{60, 300, 600}[r.Intn(3)]
	k.RefreshNonce = r.Pick([]string{"omit", "echo", "empty"})
	life := k.IDTokenTTL
	if k.ExpiresIn > life {
		life = k.ExpiresIn
	}
	id := 0
	nid := func() int { id++; return id }
	prod := func() string {
		if tier == "thorough" || r.Chance(0.8) {
			return byzProductions[(idx+r.Intn(4))%len(byzProductions)]
		}
		return "random"
	}
	t := genTarget(r)
	setByz := func(name, on string) Op {
		return Op{ID: nid(), Kind: "idp", Args: map[string]string{"byz": name, "byz_on": on}}
	}
	n := r.Range(2, 8)
	for i := 0; i < n; i++ {
		b := r.Intn(2)
		switch r.Intn(6) {
		case 0: // forged login answer
			p.Ops = append(p.Ops, setByz(prod(), "login"), Op{ID: nid(), Kind: "nav", B: b, Path: t}, Op{ID: nid(), Kind: "send", B: b, Path: t, S: "own"}, setByz("", "both"))
		case 1: // honest login
			p.Ops = append(p.Ops, Op{ID: nid(), Kind: "nav", B: b, Path: t})
		case 2: // forged refresh answer
			p.Ops = append(p.Ops, Op{ID: nid(), Kind: "nav", B: b, Path: t}, Op{ID: nid(), Kind: "adv", D: life + r.Range(1, 60)}, setByz(prod(), "refresh"),
				Op{ID: nid(), Kind: "send", B: b, Path: t, S: "own"}, Op{ID: nid(), Kind: "send", B: b, Path: t, S: "stale"}, setByz("", "both"))
		case 3: // honest refresh
			p.Ops = append(p.Ops, Op{ID: nid(), Kind: "adv", D: life + r.Range(1, 60)}, Op{ID: nid(), Kind: "send", B: b, Path: t, S: "own"})
		case 4:
			p.Ops = append(p.Ops, Op{ID: nid(), Kind: "rotate", S: r.Pick([]string{"publish", "nopublish", "keep-old"})})
		case 5:
			p.Ops = append(p.Ops, Op{ID: nid(), Kind: "send", B: b, Path: t, S: "own"})
		}
	}
	if r.Chance(0.3) {
		p.Faults = append(p.Faults, Fault{Site: "jwks.get", Nth: r.Range(1, 4), Kind: "err"})
	}
	return p
}

func ntC02(w *World) bool {
	forged := 0
	for k, v := range w.FaultsFired {
		if strings.HasPrefix(k, "byz:") {
			forged += v
		}
	}
	w.Probes["forged-answers"] += forged
	return forged >= 1 && w.Probes["tokens-bound"] >= 1
}

var _ = fmt.Sprint
