//go:build verif

package verifsim

import (
	"fmt"
	"time"
)

// C03 — Login completes: one pass through the IdP ends in OK on the original URL; while the tokens
// remain valid the browser is not sent to the provider again. Bounded liveness, fault-free.

func init() {
	register(&PropDef{ID: "C03", Gen: genC03, Run: runC03})
}

func genC03(r *Rng, tier string, idx int) *Plan {
	p := &Plan{SchedSeed: r.U64()}
	p.Spec = genSpec(r, genOpts{Filters: 1, AllowRedis: true, Triggers: true, Timeouts: false})
	// systematic part: the index enumerates the boolean cross product several times over
	bits := idx
	f := &p.Spec.Filters[0]
	k := &p.Spec.IdPs[0].Knobs
	k.OmitExpiresIn = bits&1 != 0
	if bits&2 != 0 {
		f.AccessToken = &TokenCfg{Header: accessHeaderNames[r.Intn(len(accessHeaderNames))], Preamble: preambles[r.Intn(len(preambles))]}
	} else {
		f.AccessToken = nil
	}
	k.Refresh = []string{"none", "static", "rotate", "none"}[(bits>>2)&3]
	k.AudArray = bits&16 != 0
	k.Extra = bits&32 != 0
	if bits&64 != 0 {
		f.Store = "redis"
	} else {
		f.Store = "memory"
	}
	target := genTarget(r)
	id := 1
	p.Ops = append(p.Ops, Op{ID: id, Kind: "nav", Path: target})
	n := r.Range(1, 8)
	for i := 0; i < n; i++ {
		id++
		p.Ops = append(p.Ops, Op{ID: id, Kind: "adv-frac", D: r.Range(1, 30)}) // percent of remaining validity
		id++
		t := target
		if r.Chance(0.3) {
			t = genTarget(r)
		}
		p.Ops = append(p.Ops, Op{ID: id, Kind: "nav", Path: t})
	}
	return p
}

func runC03(p *Plan) *Result {
	w := NewWorld(p.Spec, p.SchedSeed, p.Policy, nil)
	w.StartNet(nil)
	defer w.Close()
	w.Boot()
	if w.Rep.BootErr != nil {
		// "for every accepted configuration": a rejected configuration is outside the quantifier, but the
		// generator only draws configurations that should be accepted, so say so loudly.
		r := w.result()
		r.Infra = "generated configuration was rejected: " + w.Rep.BootErr.Error()
		return r
	}
	f := w.Filters[0]
	b := w.NewBrowser(0)
	viol := func(sig, detail string) { w.violate("C03", sig, detail) }
	var validUntil time.Time
	loggedIn := false
	for _, op := range p.Ops {
		switch op.Kind {
		case "adv-frac":
			if loggedIn {
				rem := time.Until(validUntil) - 10*time.Second
				if rem > 0 {
					w.Advance(rem * time.Duration(op.D) / 100)
				}
			}
		case "nav":
			if !loggedIn {
				nav := b.Navigate("login", "https", f.Spec.AppHost, op.Path, 6)
				classes := ""
				for _, r := range nav.Recs {
					classes += r.Class + ","
				}
				if nav.Stuck != "" {
					sig := "login-does-not-complete"
					if nav.AuthCount > 1 {
						sig = "redirect-loop"
					}
					viol(sig, fmt.Sprintf("browser following redirects from %s did not reach OK: %s; verdicts: %s; %s", nav.FirstURL, nav.Stuck, classes, describeSpec(p.Spec)))
					return w.result().only("C03")
				}
				if classes != "redirect-idp,redirect-url,ok," {
					sig := "login-takes-unexpected-path"
					if nav.AuthCount > 1 {
						sig = "redirect-loop"
					}
					viol(sig, fmt.Sprintf("expected redirect-to-provider, callback redirect, OK; got %s (authorization requests: %d); %s", classes, nav.AuthCount, describeSpec(p.Spec)))
					return w.result().only("C03")
				}
				if loc := nav.Recs[1].Location; loc != nav.FirstURL {
					viol("not-returned-to-original-url", fmt.Sprintf("after login Location=%q, first requested %q", loc, nav.FirstURL))
				}
				// the provider's tokens are injected
				ch := f.IdP.Chain(0)
				fin := nav.Final
				if ch == nil || fin.OKHeaders[f.Spec.IDToken.Header] != encPreamble(f.Spec.IDToken.Preamble, ch.LastID) {
					viol("provider-id-token-not-injected", fmt.Sprintf("OK headers %v", sortedKeys(fin.OKHeaders)))
				}
				if f.Spec.AccessToken != nil && ch != nil && fin.OKHeaders[f.Spec.AccessToken.Header] != encPreamble(f.Spec.AccessToken.Preamble, ch.LastAccess) {
					viol("provider-access-token-not-injected", fmt.Sprintf("OK headers %v", sortedKeys(fin.OKHeaders)))
				}
				loggedIn = true
				k := f.IdP.Knobs
				validUntil = time.Now().Add(time.Duration(k.IDTokenTTL) * time.Second)
				if f.Spec.AccessToken != nil && !k.OmitExpiresIn {
					if at := time.Now().Add(time.Duration(k.ExpiresIn) * time.Second); at.Before(validUntil) {
						validUntil = at
					}
				}
				w.probe("login-completed")
			} else {
				if time.Until(validUntil) < 10*time.Second {
					continue
				}
				rec := b.Send("again", "https", f.Spec.AppHost, op.Path)
				if rec.Class != "ok" {
					sig := "valid-session-not-ok:" + rec.Class
					viol(sig, fmt.Sprintf("request %s with %v of token validity left was answered %s (authorization requests so far: %d); %s", op.Path, time.Until(validUntil).Round(time.Second), rec.Class, len(f.IdP.AuthReqs), describeSpec(p.Spec)))
					return w.result().only("C03")
				}
				w.probe("further-requests-ok")
			}
		}
	}
	if n := len(f.IdP.AuthReqs); n != 1 {
		viol("sent-to-provider-again", fmt.Sprintf("%d authorization requests reached the provider, want exactly 1", n))
	}
	res := w.result().only("C03")
	res.Nontrivial = loggedIn
	// distinctness for C03: configuration shape x provider shape that reached OK
	res.TraceHash = hash64(describeSpec(p.Spec) + fmt.Sprint(len(p.Ops)))
	res.Summary = describeSpec(p.Spec)
	return res
}
