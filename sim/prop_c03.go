//go:build verif

package verifsim

import (
	"fmt"
	"sync/atomic"
	"time"
)

// C03 — Login completes: one pass through the IdP ends in OK on the original URL; while the tokens
// remain valid the browser is not sent to the provider again. Bounded liveness, fault-free.

func init() {
	register(&PropDef{ID: "C03", Gen: genC03, Run: runC03})
}

var recoveryStoreFaults = []string{"err-before", "err-after", "redis-down", "redis-torn:2", "redis-torn:3", "redis-torn:5", "redis-torn:7", "crash-before", "crash-after", "ctx-cancel"}

// genC03Recovery: bounded liveness after faults. A prelude of ordinary browsing in which a few seam calls
// fail (store, Redis half-way through a call, token endpoint, key endpoint, discovery, connection refused, the
// caller giving up, a crash), then the faults stop, and every browser - whatever cookie the prelude left it
// with - must get through one pass of login (or still be logged in).
func genC03Recovery(r *Rng, p *Plan) *Plan {
	p.Mode = "recovery"
	p.Spec = genSpec(r, genOpts{Filters: 1, AllowRedis: true, Triggers: true, Timeouts: false})
	k := &p.Spec.IdPs[0].Knobs
	if k.Refresh == "none" && r.Bool() {
		k.Refresh = "rotate"
	}
	id := 0
	nid := func() int { id++; return id }
	target := genTarget(r)
	n := r.Range(2, 7)
	for i := 0; i < n; i++ {
		b := r.Intn(2)
		switch r.Intn(8) {
		case 0, 1, 2:
			p.Ops = append(p.Ops, Op{ID: nid(), Kind: "nav", B: b, Path: target})
		case 3:
			p.Ops = append(p.Ops, Op{ID: nid(), Kind: "begin", B: b, Path: target})
		case 4:
			p.Ops = append(p.Ops, Op{ID: nid(), Kind: "finish", B: b})
		case 5:
			p.Ops = append(p.Ops, Op{ID: nid(), Kind: "send", B: b, Path: target, S: "own"})
		case 6:
			p.Ops = append(p.Ops, Op{ID: nid(), Kind: "adv", D: r.Range(1, 90)})
		case 7:
			p.Ops = append(p.Ops, Op{ID: nid(), Kind: "send", B: b, Path: target, S: "stale"})
		}
	}
	nf := r.Range(1, 3)
	for i := 0; i < nf; i++ {
		switch r.Intn(12) {
		case 0, 1, 2, 3:
			p.Faults = append(p.Faults, Fault{Site: "store." + r.Pick(storeMethods), Nth: r.Range(1, 5), Kind: r.Pick(recoveryStoreFaults)})
		case 4, 5:
			p.Faults = append(p.Faults, Fault{Site: "idp.token", Nth: r.Range(1, 3), Kind: r.Pick(append([]string{"ctx-cancel"}, tokenFaults...))})
		case 6:
			p.Faults = append(p.Faults, Fault{Site: "jwks.get", Nth: r.Range(1, 2), Kind: "err"})
		case 7, 8:
			p.Faults = append(p.Faults, Fault{Site: "idp.jwks", Nth: 1, Kind: r.Pick([]string{"500", "ctx-cancel"})})
		case 9, 10:
			p.Faults = append(p.Faults, Fault{Site: "idp.disc", Nth: r.Range(1, 2), Kind: r.Pick([]string{"500", "garbage", "reset", "ctx-cancel"})})
		case 11:
			p.Faults = append(p.Faults, Fault{Site: "net.dial", Nth: r.Range(1, 4), Kind: "refused"})
		}
	}
	p.Ops = append(p.Ops, Op{ID: nid(), Kind: "faults-stop"})
	if r.Chance(0.5) {
		p.Ops = append(p.Ops, Op{ID: nid(), Kind: "adv", D: r.Range(1, 60)})
	}
	for _, b := range []int{0, 1, 4} {
		p.Ops = append(p.Ops, Op{ID: nid(), Kind: "recover", B: b, Path: target})
	}
	sprayReplicas(r, p, 0.3)
	return p
}

// genC03Stall: one request's provider answer (discovery document or token answer) stays outstanding while other
// browsers log in: their logins must complete without it.
func genC03Stall(r *Rng, p *Plan) *Plan {
	p.Mode = "stall"
	p.Spec = genSpec(r, genOpts{Filters: 1, AllowRedis: true, Triggers: true, Timeouts: false})
	p.Spec.IdPs[0].Knobs.LatencyUS = 0 // the fake clock stands still while an answer is stalled
	site := "idp.token"
	if r.Bool() {
		site = "idp.disc"
		p.Spec.Filters[0].Discovery = true
	}
	p.Faults = []Fault{{Site: site, Nth: 1, Kind: "stall"}}
	t := genTarget(r)
	p.Ops = []Op{{ID: 1, Kind: "nav", B: 0, Path: t}, {ID: 2, Kind: "recover", B: 1, Path: genTarget(r)}}
	if r.Bool() {
		p.Ops = append(p.Ops, Op{ID: 3, Kind: "recover", B: 4, Path: t})
	}
	return p
}

func genC03(r *Rng, tier string, idx int) *Plan {
	p := &Plan{SchedSeed: r.U64()}
	if idx%8 == 7 {
		return genC03Stall(r, p)
	}
	if idx%4 == 3 {
		return genC03Recovery(r, p)
	}
	p.Spec = genSpec(r, genOpts{Filters: 1, AllowRedis: true, Triggers: true, Timeouts: false})
	// systematic part: the index enumerates the boolean cross product several times over
	bits := idx
	f := &p.Spec.Filters[0]
	k := &p.Spec.IdPs[0].Knobs
	k.OmitExpiresIn = bits&1 != 0
	if bits&2 != 0 {
		f.AccessToken = &TokenCfg{Header: accessHeaderNames[r.Intn(len(accessHeaderNames))], Preamble: preambles[r.Intn(len(preambles))]}
	} else {
		f.AccessToken = nil
	}
	k.Refresh = []string{"none", "static", "rotate", "none"}[(bits>>2)&3]
	k.AudArray = bits&16 != 0
	k.Extra = bits&32 != 0
	if bits&64 != 0 {
		f.Store = "redis"
	} else {
		f.Store = "memory"
	}
	target := genTarget(r)
	id := 1
	p.Ops = append(p.Ops, Op{ID: id, Kind: "nav", Path: target})
	n := r.Range(1, 8)
	for i := 0; i < n; i++ {
		id++
		p.Ops = append(p.Ops, Op{ID: id, Kind: "adv-frac", D: r.Range(1, 30)}) // percent of remaining validity
		id++
		t := target
		if r.Chance(0.3) {
			t = genTarget(r)
		}
		p.Ops = append(p.Ops, Op{ID: id, Kind: "nav", Path: t})
	}
	return p
}

func runC03Recovery(p *Plan) *Result {
	w := NewWorld(p.Spec, p.SchedSeed, p.Policy, p.Faults)
	w.StartNet(nil)
	defer w.Close()
	w.Boot()
	if w.Rep.BootErr != nil {
		r := w.result()
		r.Infra = "generated configuration was rejected: " + w.Rep.BootErr.Error()
		return r
	}
	f := w.Filters[0]
	a := w.NewAgents()
	recovered := 0
	for i := range p.Ops {
		op := &p.Ops[i]
		switch op.Kind {
		case "faults-stop":
			w.FaultsOff = true
			w.logf("t=%s faults stop (%s)", time.Since(w.start).Round(time.Millisecond), w.FaultSummary())
		case "recover":
			if !w.FaultsOff {
				continue // (shrunk plan without the marker: nothing to judge)
			}
			a.route(op)
			before := len(f.IdP.AuthReqs)
			nav := a.Nav("recover", op.B, 0, op.Path, 6)
			classes := ""
			for _, r := range nav.Recs {
				classes += r.Class + ","
			}
			switch {
			case nav.Stuck == "" && classes == "ok,":
				w.probe("still-logged-in-after-faults")
			case nav.Stuck == "" && classes == "redirect-idp,redirect-url,ok," && len(f.IdP.AuthReqs) == before+1:
				w.probe("login-completed-after-faults")
				recovered++
			default:
				sig := "login-does-not-complete-after-faults-stopped"
				w.violate("C03", sig, fmt.Sprintf("faults stopped at an earlier step (%s); browser %d following redirects from %s: %s; verdicts: %s; %s", w.FaultSummary(), op.B, nav.FirstURL, nav.Stuck, classes, describeSpec(p.Spec)))
				res := w.result().only("C03")
				res.Nontrivial = true
				return res
			}
			// and it stays logged in
			if rec := a.Raw("again", op.B, 0, op.Path, "own"); rec != nil && rec.Class != "ok" {
				w.violate("C03", "valid-session-not-ok-after-faults:"+rec.Class, fmt.Sprintf("browser %d was answered %s right after its login completed; %s", op.B, rec.Class, describeSpec(p.Spec)))
			}
		default:
			c15Exec(a, op)
		}
	}
	res := w.result().only("C03")
	nf := 0
	for _, v := range w.FaultsFired {
		nf += v
	}
	res.Nontrivial = recovered > 0 && nf > 0
	res.Summary = "recovery: " + w.FaultSummary()
	return res
}

func runC03Stall(p *Plan) *Result {
	w := NewWorld(p.Spec, p.SchedSeed, 0, p.Faults)
	w.StartNet(nil)
	defer w.Close()
	w.Boot()
	if w.Rep.BootErr != nil {
		r := w.result()
		r.Infra = "generated configuration was rejected: " + w.Rep.BootErr.Error()
		return r
	}
	if len(p.Ops) < 2 {
		return w.result().only("C03")
	}
	f := w.Filters[0]
	a := w.NewAgents()
	w.stallInit()
	main := w.Sim.Cur()
	taskA := w.Sim.NewTask(1, "stalled")
	doneA := make(chan struct{})
	go func() {
		defer close(doneA)
		defer func() { _ = recover() }()
		w.Sim.SetCur(taskA)
		c15Exec(a, &p.Ops[0])
	}()
	stalled := false
	select {
	case <-w.stall.sig:
		stalled = true
	case <-doneA:
	}
	w.Sim.SetCur(main)
	if !stalled {
		res := w.result().only("C03")
		res.Summary = "stall: the site was not reached"
		return res
	}
	var done atomic.Bool
	wdCh <- &wdReq{patience: stallPatience, done: &done, fire: func() {
		w.stall.expired.Store(true)
		w.stall.releaseAll()
	}}
	type outcome struct {
		b       int
		url     string
		classes string
		stuck   string
	}
	var outs []outcome
	for i := range p.Ops[1:] {
		op := &p.Ops[1+i]
		if op.Kind != "recover" {
			continue
		}
		nav := a.Nav("while-stalled", op.B, 0, op.Path, 6)
		w.Sim.SetCur(main)
		o := outcome{b: op.B, url: nav.FirstURL, stuck: nav.Stuck}
		for _, r := range nav.Recs {
			o.classes += r.Class + ","
		}
		outs = append(outs, o)
	}
	done.Store(true)
	expired := w.stall.expired.Load()
	w.stall.releaseAll()
	<-doneA
	w.Sim.SetCur(main)
	site := p.Faults[0].Site
	if expired {
		w.violate("C03", "login-waits-for-another-requests-outstanding-answer:"+site, fmt.Sprintf("while the %s answer of browser 0's request was outstanding, another browser's login made no progress for %v of real time and went on as soon as that answer was released; %s", site, stallPatience, describeSpec(p.Spec)))
	} else {
		for _, o := range outs {
			if o.stuck != "" || o.classes != "redirect-idp,redirect-url,ok," {
				w.violate("C03", "login-does-not-complete-while-another-answer-is-outstanding:"+site, fmt.Sprintf("browser %d following redirects from %s: %s; verdicts: %s; %s", o.b, o.url, o.stuck, o.classes, describeSpec(p.Spec)))
				break
			}
			w.probe("logins-completed-while-another-answer-was-outstanding")
		}
	}
	_ = f
	res := w.result().only("C03")
	res.Nontrivial = len(outs) > 0
	res.Summary = "stall at " + site
	return res
}

func runC03(p *Plan) *Result {
	if p.Mode == "recovery" {
		return runC03Recovery(p)
	}
	if p.Mode == "stall" {
		return runC03Stall(p)
	}
	w := NewWorld(p.Spec, p.SchedSeed, p.Policy, nil)
	w.StartNet(nil)
	defer w.Close()
	w.Boot()
	if w.Rep.BootErr != nil {
		// "for every accepted configuration": a rejected configuration is outside the quantifier, but the
		// generator only draws configurations that should be accepted, so say so loudly.
		r := w.result()
		r.Infra = "generated configuration was rejected: " + w.Rep.BootErr.Error()
		return r
	}
	f := w.Filters[0]
	b := w.NewBrowser(0)
	viol := func(sig, detail string) { w.violate("C03", sig, detail) }
	var validUntil time.Time
	loggedIn := false
	for _, op := range p.Ops {
		switch op.Kind {
		case "adv-frac":
			if loggedIn {
				rem := time.Until(validUntil) - 10*time.Second
				if rem > 0 {
					w.Advance(rem * time.Duration(op.D) / 100)
				}
			}
		case "nav":
			if !loggedIn {
				nav := b.Navigate("login", "https", f.Spec.AppHost, op.Path, 6)
				classes := ""
				for _, r := range nav.Recs {
					classes += r.Class + ","
				}
				if nav.Stuck != "" {
					sig := "login-does-not-complete"
					if nav.AuthCount > 1 {
						sig = "redirect-loop"
					}
					viol(sig, fmt.Sprintf("browser following redirects from %s did not reach OK: %s; verdicts: %s; %s", nav.FirstURL, nav.Stuck, classes, describeSpec(p.Spec)))
					return w.result().only("C03")
				}
				if classes != "redirect-idp,redirect-url,ok," {
					sig := "login-takes-unexpected-path"
					if nav.AuthCount > 1 {
						sig = "redirect-loop"
					}
					viol(sig, fmt.Sprintf("expected redirect-to-provider, callback redirect, OK; got %s (authorization requests: %d); %s", classes, nav.AuthCount, describeSpec(p.Spec)))
					return w.result().only("C03")
				}
				if loc := nav.Recs[1].Location; loc != nav.FirstURL {
					viol("not-returned-to-original-url", fmt.Sprintf("after login Location=%q, first requested %q", loc, nav.FirstURL))
				}
				// the provider's tokens are injected
				ch := f.IdP.Chain(0)
				fin := nav.Final
				if ch == nil || fin.OKHeaders[f.Spec.IDToken.Header] != encPreamble(f.Spec.IDToken.Preamble, ch.LastID) {
					viol("provider-id-token-not-injected", fmt.Sprintf("OK headers %v", sortedKeys(fin.OKHeaders)))
				}
				if f.Spec.AccessToken != nil && ch != nil && fin.OKHeaders[f.Spec.AccessToken.Header] != encPreamble(f.Spec.AccessToken.Preamble, ch.LastAccess) {
					viol("provider-access-token-not-injected", fmt.Sprintf("OK headers %v", sortedKeys(fin.OKHeaders)))
				}
				loggedIn = true
				k := f.IdP.Knobs
				validUntil = time.Now().Add(time.Duration(k.IDTokenTTL) * time.Second)
				if f.Spec.AccessToken != nil && !k.OmitExpiresIn {
					if at := time.Now().Add(time.Duration(k.ExpiresIn) * time.Second); at.Before(validUntil) {
						validUntil = at
					}
				}
				w.probe("login-completed")
			} else {
				if time.Until(validUntil) < 10*time.Second {
					continue
				}
				rec := b.Send("again", "https", f.Spec.AppHost, op.Path)
				if rec.Class != "ok" {
					sig := "valid-session-not-ok:" + rec.Class
					viol(sig, fmt.Sprintf("request %s with %v of token validity left was answered %s (authorization requests so far: %d); %s", op.Path, time.Until(validUntil).Round(time.Second), rec.Class, len(f.IdP.AuthReqs), describeSpec(p.Spec)))
					return w.result().only("C03")
				}
				w.probe("further-requests-ok")
			}
		}
	}
	if n := len(f.IdP.AuthReqs); n != 1 {
		viol("sent-to-provider-again", fmt.Sprintf("%d authorization requests reached the provider, want exactly 1", n))
	}
	res := w.result().only("C03")
	res.Nontrivial = loggedIn
	// distinctness for C03: configuration shape x provider shape that reached OK
	res.TraceHash = hash64(describeSpec(p.Spec) + fmt.Sprint(len(p.Ops)))
	res.Summary = describeSpec(p.Spec)
	return res
}
