//go:build verif

package verifsim

import (
	"fmt"
	"time"
)

// C06 — Session ids, state and nonce are unpredictable. What the simulator controls is precisely
// the disclosed input named by the property: the time of the request. Black-box on Check.
// The static clause ("for every code path ... in the shipped sources") is outside this technique.

func init() {
	register(&PropDef{ID: "C06", Gen: genC06, Run: runC06, NoBubble: true})
}

type idents struct {
	SID, State, Nonce, Challenge string
	OK                           bool
}

func genC06(r *Rng, tier string, idx int) *Plan {
	p := &Plan{SchedSeed: r.U64()}
	p.Spec = genSpec(r, genOpts{Filters: 1, NoDiscovery: true, NoFetch: true, ForceStore: "memory"})
	p.Mode = []string{"replay", "same-instant", "time-window", "stale-cookie", "restart", "concurrent"}[idx%6]
	if p.Mode == "concurrent" {
		p.Spec.HandlerMode = r.Bool()
		p.Policy = r.Intn(2)
	}
	// the request instant: somewhere in the first simulated day, at nanosecond granularity
	p.Ops = []Op{{ID: 1, Kind: "at", D: r.Intn(86400), Args: map[string]string{"ns": fmt.Sprint(r.Intn(1000000000))}},
		{ID: 2, Kind: "window", D: []int{50, 200, 1000}[r.Intn(3)]}, // +- ns known to the attacker
		{ID: 3, Kind: "secret-delta", D: r.Intn(2001) - 1000},
		{ID: 4, Kind: "k", D: r.Range(2, 6)}}
	return p
}

// loginsAt boots a fresh replica in a fresh bubble whose clock reads start+at and performs k first
// requests at that very instant.
func loginsAt(spec *WorldSpec, at time.Duration, k int, cookie string) (out []idents) {
	inBubble(func() {
		w := NewWorld(spec, 1, 0, nil)
		defer w.Close()
		w.Boot()
		if w.Rep.BootErr != nil {
			return
		}
		time.Sleep(at)
		f := w.Filters[0]
		for i := 0; i < k; i++ {
			hdr := map[string]string{}
			if cookie != "" {
				hdr["cookie"] = f.Spec.CookieName() + "=" + cookie
			}
			rec := w.Check(i, "first", "https", f.Spec.AppHost, "/x", hdr)
			id := idents{}
			if rec.Class == "redirect-idp" && len(rec.SetCookie) == 1 {
				pc := parseSetCookie(rec.SetCookie[0])
				ar := f.ParseAuth(rec.Location)
				id = idents{SID: pc.Value, State: ar.Param("state"), Nonce: ar.Param("nonce"), Challenge: ar.Param("code_challenge"), OK: pc.Value != ""}
			}
			out = append(out, id)
		}
	})
	return out
}

func (a idents) shares(b idents) string {
	switch {
	case !a.OK || !b.OK:
		return ""
	case a.SID == b.SID:
		return "session-id"
	case a.State == b.State:
		return "state"
	case a.Nonce == b.Nonce:
		return "nonce"
	}
	return ""
}

func runC06(p *Plan) *Result {
	res := &Result{Probes: map[string]int{}, Faults: map[string]int{}}
	var at time.Duration
	window, delta, k := 100, 0, 3
	for _, op := range p.Ops {
		switch op.Kind {
		case "at":
			var ns int
			fmt.Sscan(op.Args["ns"], &ns)
			at = time.Duration(op.D)*time.Second + time.Duration(ns)
		case "window":
			window = op.D
		case "secret-delta":
			delta = op.D
		case "k":
			k = op.D
		}
	}
	if delta > window {
		delta = window
	}
	if delta < -window {
		delta = -window
	}
	viol := func(sig, detail string) {
		res.Viol = append(res.Viol, Violation{"C06", sig, detail})
	}
	evals := 0
	switch p.Mode {
	case "replay":
		// identical simulated clock, schedule and inputs twice: identifiers must still differ
		res.Faults["clock-step-back"]++
		a := loginsAt(p.Spec, at, 1, "")
		b := loginsAt(p.Spec, at, 1, "")
		evals = 2
		if len(a) == 1 && len(b) == 1 {
			if what := a[0].shares(b[0]); what != "" {
				viol("identifiers-are-a-function-of-the-request-instant:"+what, fmt.Sprintf("two executions with the clock reading the same instant (%v after start) produced the same %s", at, what))
			}
			res.Probes["replayed-logins"]++
		}
	case "same-instant":
		res.Faults["clock-freeze"]++
		ids := loginsAt(p.Spec, at, k, "")
		evals = k
		for i := 0; i < len(ids); i++ {
			for j := i + 1; j < len(ids); j++ {
				if what := ids[i].shares(ids[j]); what != "" {
					viol("same-instant-logins-share:"+what, fmt.Sprintf("logins %d and %d of %d at one frozen instant share the %s", i, j, k, what))
					i = len(ids)
					break
				}
			}
		}
		res.Probes["same-instant-logins"] += k
	case "concurrent":
		// k first requests handled concurrently (seeded interleaving): no identifier may share a long run of
		// characters with an identifier handed to another client
		var seq []idents
		inBubble(func() {
			w := NewWorld(p.Spec, p.SchedSeed, p.Policy, nil)
			defer w.Close()
			w.Boot()
			if w.Rep.BootErr != nil {
				return
			}
			time.Sleep(at)
			a := w.NewAgents()
			var par []Op
			for i := 0; i < k+1; i++ {
				par = append(par, Op{ID: 10 + i, Kind: "begin", B: i, Path: "/x"})
			}
			a.Par(par)
			f := w.Filters[0]
			for _, rec := range w.Checks {
				if rec.Class == "redirect-idp" && len(rec.SetCookie) == 1 {
					pc := parseSetCookie(rec.SetCookie[0])
					ar := f.ParseAuth(rec.Location)
					seq = append(seq, idents{SID: pc.Value, State: ar.Param("state"), Nonce: ar.Param("nonce"), Challenge: ar.Param("code_challenge"), OK: pc.Value != ""})
				}
			}
		})
		evals = len(seq)
		for i := 0; i < len(seq) && len(res.Viol) == 0; i++ {
			for j := 0; j < len(seq) && len(res.Viol) == 0; j++ {
				if i == j {
					continue
				}
				for _, x := range []string{seq[i].SID, seq[i].State, seq[i].Nonce} {
					for _, y := range []string{seq[j].SID, seq[j].State, seq[j].Nonce} {
						if n := commonRun(x, y); n >= 12 {
							viol("identifiers-of-different-clients-overlap", fmt.Sprintf("concurrently handled logins %d and %d: an identifier of one shares a run of %d characters with an identifier of the other", i, j, n))
						}
					}
				}
			}
		}
		res.Probes["concurrent-logins"] += evals
	case "restart":
		// a login is restarted by presenting the id of the still-pending one: everything must be fresh
		var seq []idents
		inBubble(func() {
			w := NewWorld(p.Spec, 1, 0, nil)
			defer w.Close()
			w.Boot()
			if w.Rep.BootErr != nil {
				return
			}
			time.Sleep(at)
			f := w.Filters[0]
			cookie := ""
			for i := 0; i < k+1; i++ {
				hdr := map[string]string{}
				if cookie != "" {
					hdr["cookie"] = cookie
				}
				rec := w.Check(0, "restart", "https", f.Spec.AppHost, "/x", hdr)
				if rec.Class != "redirect-idp" || len(rec.SetCookie) != 1 {
					break
				}
				pc := parseSetCookie(rec.SetCookie[0])
				ar := f.ParseAuth(rec.Location)
				seq = append(seq, idents{SID: pc.Value, State: ar.Param("state"), Nonce: ar.Param("nonce"), Challenge: ar.Param("code_challenge"), OK: pc.Value != ""})
				cookie = pc.Name + "=" + pc.Value
			}
		})
		evals = len(seq)
		for i := 0; i < len(seq); i++ {
			for j := i + 1; j < len(seq); j++ {
				what := seq[i].shares(seq[j])
				if what == "" && seq[i].Challenge == seq[j].Challenge {
					what = "code_challenge"
				}
				if what != "" {
					viol("restarted-login-reuses:"+what, fmt.Sprintf("login redirects %d and %d of one client (each presenting the previous, still pending, session id) share the %s", i, j, what))
					i = len(seq)
					break
				}
			}
		}
		res.Probes["restarted-logins"] += evals
	case "stale-cookie":
		// a login redirect answering a request that presents an id: the new id must not be derivable
		ids := loginsAt(p.Spec, at, 2, "attackerchosenid0000000000000000000000000000000000000000000000000")
		evals = 2
		if len(ids) == 2 {
			if what := ids[0].shares(ids[1]); what != "" {
				viol("same-instant-logins-share:"+what, "two redirects for the same presented cookie at one instant share the "+what)
			}
		}
		res.Probes["same-instant-logins"] += 2
	case "time-window":
		// the attacker knows the request instant to +-window ns and tries every candidate instant
		victim := loginsAt(p.Spec, at+time.Duration(delta), 1, "")
		if len(victim) != 1 || !victim[0].OK {
			res.Infra = "victim login did not produce identifiers"
			return res
		}
		for c := -window; c <= window; c++ {
			cand := loginsAt(p.Spec, at+time.Duration(c), 1, "")
			evals++
			if len(cand) == 1 {
				if what := cand[0].shares(victim[0]); what != "" {
					viol("computable-from-request-time:"+what, fmt.Sprintf("an attacker knowing the request time to +-%d ns reproduced the victim's %s by trying candidate instants (hit at offset %d ns)", window, what, c))
					break
				}
			}
		}
		res.Probes["time-window-candidates"] += evals
	}
	res.Nontrivial = evals > 0
	res.Steps = evals
	res.TraceHash = hash64(fmt.Sprintf("%s/%v/%d/%d/%d", p.Mode, at, window, delta, k))
	res.SchedHash = res.TraceHash
	res.SimSecs = at.Seconds() * float64(evals)
	res.Summary = fmt.Sprintf("mode=%s instant=%v window=+-%dns candidates=%d", p.Mode, at, window, evals)
	return res
}

// commonRun returns the length of the longest common substring at equal or different offsets.
func commonRun(a, b string) int {
	best := 0
	for i := 0; i < len(a); i++ {
		for j := 0; j < len(b); j++ {
			n := 0
			for i+n < len(a) && j+n < len(b) && a[i+n] == b[j+n] {
				n++
			}
			if n > best {
				best = n
			}
		}
	}
	return best
}
