//go:build verif

package verifsim

import (
	"fmt"
)

// C09 — Logout is final. Schedules: a logout interleaved with one or two concurrent checks on the
// same session at store-call and token-endpoint granularity; sequential histories with logouts.

func init() {
	register(&PropDef{ID: "C09", Gen: genC09, Run: runC09})
}

func genC09(r *Rng, tier string, idx int) *Plan {
	p := &Plan{SchedSeed: r.U64(), Policy: r.Intn(2)}
	p.Spec = genSpec(r, genOpts{Filters: 1, AllowRedis: true, Logout: 1, NoFetch: true})
	k := &p.Spec.IdPs[0].Knobs
	k.Refresh = []string{"static", "rotate"}[r.Intn(2)]
	k.IDTokenTTL, k.ExpiresIn = 600, 600
	k.LatencyUS = []int{0, 50, 300, 2000}[r.Intn(4)]
	target := genTarget(r)
	id := 0
	nid := func() int { id++; return id }
	mode := []string{"fresh", "expired", "midlogin", "sequential", "faulty-logout"}[idx%5]
	p.Mode = mode
	if r.Chance(0.3) {
		p.Ops = append(p.Ops, Op{ID: nid(), Kind: "client", B: 0, Args: map[string]string{"noise": r.Pick([]string{"darkmode; lang=en", ";; a=b", "consent", "theme=dark"})}})
	}
	switch mode {
	case "fresh", "expired", "faulty-logout":
		p.Ops = append(p.Ops, Op{ID: nid(), Kind: "nav", Path: target})
		if mode == "expired" || mode == "faulty-logout" && r.Bool() {
			p.Ops = append(p.Ops, Op{ID: nid(), Kind: "adv", D: 601 + r.Intn(100)})
		}
	case "midlogin":
		p.Ops = append(p.Ops, Op{ID: nid(), Kind: "begin", Path: target})
	}
	switch mode {
	case "sequential":
		// arbitrary sequential history containing logouts
		n := r.Range(4, 12)
		for i := 0; i < n; i++ {
			switch r.Intn(6) {
			case 0, 1:
				p.Ops = append(p.Ops, Op{ID: nid(), Kind: "nav", Path: target})
			case 2:
				p.Ops = append(p.Ops, Op{ID: nid(), Kind: "logout", S: []string{"", "?x=1", "#frag", "?a=b#c", "?rd=/home?tab=1", "?a=b?c=d#e?f"}[r.Intn(6)]})
			case 3:
				p.Ops = append(p.Ops, Op{ID: nid(), Kind: "send", Path: target, S: "stale"})
			case 4:
				p.Ops = append(p.Ops, Op{ID: nid(), Kind: "adv", D: r.Range(1, 700)})
			case 5:
				p.Ops = append(p.Ops, Op{ID: nid(), Kind: "send", Path: target, S: "held"})
			}
		}
	default:
		par := []Op{{ID: nid(), Kind: "logout", S: "held"}}
		n := r.Range(1, 2)
		for i := 0; i < n; i++ {
			if mode == "midlogin" && (i == 0 || r.Bool()) {
				par = append(par, Op{ID: nid(), Kind: "finish-held"})
			} else {
				par = append(par, Op{ID: nid(), Kind: "send", Path: target, S: "held"})
			}
		}
		// shuffle so that task ids do not correlate with roles
		for i := len(par) - 1; i > 0; i-- {
			j := r.Intn(i + 1)
			par[i], par[j] = par[j], par[i]
		}
		if mode == "faulty-logout" {
			p.Faults = append(p.Faults, Fault{Site: "store.RemoveSession", Nth: 1, Kind: []string{"err-before", "err-after", "redis-down", "redis-down"}[r.Intn(4)]})
		}
		p.Ops = append(p.Ops, Op{ID: nid(), Kind: "par", Par: par})
		m := r.Range(1, 3)
		for i := 0; i < m; i++ {
			if r.Chance(0.3) {
				p.Ops = append(p.Ops, Op{ID: nid(), Kind: "adv", D: r.Range(1, 700)})
			}
			p.Ops = append(p.Ops, Op{ID: nid(), Kind: "send", Path: target, S: "held"})
		}
	}
	sprayReplicas(r, p, 0.5)
	return p
}

func runC09(p *Plan) *Result {
	w := NewWorld(p.Spec, p.SchedSeed, p.Policy, p.Faults)
	w.StartNet(nil)
	defer w.Close()
	w.Boot()
	if w.Rep.BootErr != nil {
		r := w.result()
		r.Infra = "generated configuration was rejected: " + w.Rep.BootErr.Error()
		return r
	}
	a := w.NewAgents()
	for i := range p.Ops {
		op := &p.Ops[i]
		c09Exec(a, op)
	}
	// probes: how the concurrent checks were ordered against the logout answer
	var lo *CheckRec
	for _, c := range w.Checks {
		if c.Class == "logout" && c.SID != "" && c.Overlapped {
			lo = c
		}
	}
	judgedAfter := 0
	for _, c := range w.Checks {
		if _, ok := w.loggedOut[c.SID]; ok && c.SID != "" && c.Seq1 > w.loggedOut[c.SID] && c.Class != "logout" {
			judgedAfter++
		}
	}
	if lo != nil {
		first, last := true, true
		for _, c := range w.Checks {
			if c == lo || c.SID != lo.SID || !c.Overlapped && !(c.Seq0 > lo.Seq0-50 && c.Seq0 < lo.Seq1+50) {
				continue
			}
			if !c.Overlapped {
				continue
			}
			if c.Seq0 < lo.Seq1 {
				first = false
			}
			if c.Seq1 > lo.Seq0 {
				last = false
			}
			if c.Seq0 < lo.Seq1 && c.Seq1 > lo.Seq1 {
				for _, tr := range c.TokenReqs {
					if tr.Grant == "refresh_token" {
						w.probe("refresh_in_flight_at_logout")
					} else {
						w.probe("callback_in_flight_at_logout")
					}
				}
			}
		}
		if first {
			w.probe("logout_first")
		}
		if last {
			w.probe("logout_last")
		}
	}
	res := w.result().only("C09")
	res.Nontrivial = len(w.loggedOut) > 0 && judgedAfter > 0
	res.TraceHash = hash64(w.TraceSig() + w.Sim.TraceString())
	res.Summary = fmt.Sprintf("mode=%s %s", p.Mode, describeSpec(p.Spec))
	return res
}

func c09Exec(a *Agents, op *Op) {
	a.route(op)
	switch op.Kind {
	case "logout":
		f := a.w.Filters[op.F]
		if op.S == "held" {
			a.Raw("logout", op.B, op.F, f.Spec.Logout.Path, "held")
			return
		}
		a.Exec(op)
	case "finish-held":
		cb := a.LastCB[key(op.B, op.F)]
		if cb != "" {
			a.Raw("finish", op.B, op.F, cb, "held")
		}
	case "par":
		// the tasks of a par op use c09Exec too
		a.parWith(op.Par, c09Exec)
	default:
		a.Exec(op)
	}
}
