//go:build verif

package verifsim

import (
	"fmt"
	"time"
)

// C10 — Absolute and idle session timeouts are enforced: at store level with the fake clock
// (memory store and two Redis store instances) and at system level through the start-up wiring.

func init() {
	register(&PropDef{ID: "C10", Gen: genC10, Run: runC10, NoBubble: true})
}

var timeoutChoices = []int{0, 1, 5, 60, 600, 3600, 86400, 30 * 86400}

func genC10(r *Rng, tier string, idx int) *Plan {
	p := &Plan{SchedSeed: r.U64()}
	abs := timeoutChoices[r.Intn(len(timeoutChoices))]
	idle := timeoutChoices[r.Intn(len(timeoutChoices))]
	if idx%8 == 0 {
		abs, idle = 0, 0
	}
	// interesting advances: on either side of each limit, fractions of them, and small steps
	advs := []int{1, 2, 3}
	for _, l := range []int{abs, idle} {
		if l > 0 {
			advs = append(advs, l-2, l+2, l-1, l+1, l, l/2, l/3+1, 2*l+5)
		}
	}
	pickAdv := func() int {
		d := advs[r.Intn(len(advs))]
		if d < 1 {
			d = 1
		}
		return d
	}
	if idx%4 == 3 {
		// ---- system level ----
		p.Mode = "system"
		p.Spec = genSpec(r, genOpts{Filters: 1, AllowRedis: true, NoFetch: true, NoDiscovery: true})
		f := &p.Spec.Filters[0]
		f.AbsTimeout, f.IdleTimeout = abs, idle
		k := &p.Spec.IdPs[0].Knobs
		k.IDTokenTTL = 400 * 86400 // tokens stay fresh: only the session limits are in play
		k.OmitExpiresIn = true
		k.Refresh = "none"
		if idx%8 == 7 && abs > 5 {
			// ... or tokens that expire several times inside the absolute limit and are refreshed: refreshing is a
			// use of the session, it must not move the absolute limit
			k.IDTokenTTL = abs / 3
			k.ExpiresIn = abs / 3
			k.OmitExpiresIn = false
			k.Refresh = []string{"static", "rotate"}[r.Intn(2)]
			p.Mode = "system"
		}
		t := genTarget(r)
		id := 0
		nid := func() int { id++; return id }
		p.Ops = append(p.Ops, Op{ID: nid(), Kind: "nav", Path: t})
		n := r.Range(3, 14)
		for i := 0; i < n; i++ {
			p.Ops = append(p.Ops, Op{ID: nid(), Kind: "adv", D: pickAdv()}, Op{ID: nid(), Kind: "probe", Path: t})
			if r.Chance(0.1) && f.Store != "memory" {
				p.Ops = append(p.Ops, Op{ID: nid(), Kind: "crash"})
			}
		}
		return p
	}
	// ---- store level ----
	p.Mode = "store"
	p.Ops = append(p.Ops, Op{ID: 0, Kind: "timeouts", D: abs, F: idle})
	n := r.Range(5, 60)
	nids := r.Range(1, 3)
	stores := [][]string{{"mem"}, {"A", "B"}, {"mem", "A", "B"}}[r.Intn(3)]
	for i := 0; i < n; i++ {
		op := Op{ID: i + 1, B: r.Intn(nids), S: stores[r.Intn(len(stores))]}
		switch r.Intn(12) {
		case 0, 1:
			op.Kind = "settok"
		case 2, 3, 4:
			op.Kind = "gettok"
		case 5:
			op.Kind = "setstate"
		case 6:
			op.Kind = "getstate"
		case 7:
			op.Kind = "clear"
		case 8, 9:
			op.Kind = "adv"
			op.D = pickAdv()
		case 10:
			if abs > 0 && idle >= 4 && idle < abs && abs/idle <= 400 && r.Chance(0.5) {
				op.Kind = "keepalive"
			} else {
				op.Kind = "adv"
				op.D = pickAdv()
			}
		case 11:
			if r.Chance(0.3) {
				op.Kind = "remove"
			} else {
				op.Kind = "gettok"
			}
		}
		p.Ops = append(p.Ops, op)
	}
	return p
}

func runC10(p *Plan) *Result {
	if p.Mode != "system" {
		var res *Result
		inBubble(func() { res = runStorePlan(p, "C10", true) })
		return res
	}
	var w *World
	infra := ""
	inBubble(func() {
		w = NewWorld(p.Spec, p.SchedSeed, 0, nil)
		w.StartNet(nil)
		defer w.Close()
		w.Boot()
		if w.Rep.BootErr != nil {
			infra = "generated configuration was rejected: " + w.Rep.BootErr.Error()
			return
		}
		f := w.Filters[0]
		abs, idle := time.Duration(f.Spec.AbsTimeout)*time.Second, time.Duration(f.Spec.IdleTimeout)*time.Second
		a := w.NewAgents()
		var created, lastUsed time.Time
		have := false
		memoryLost := false
		for i := range p.Ops {
			op := &p.Ops[i]
			switch op.Kind {
			case "nav":
				res := a.Nav("login", 0, 0, op.Path, 6)
				if res.Final != nil && res.Final.Class == "ok" {
					// the session's first write is the redirect that issued its id
					created, lastUsed, have = res.Recs[0].T0, time.Now(), true
				}
			case "adv":
				w.Advance(time.Duration(op.D) * time.Second)
				w.logf("t=%s advance %ds", time.Since(w.start).Round(time.Millisecond), op.D)
			case "crash":
				w.CrashRestart()
				if f.Spec.Store == "memory" {
					memoryLost = true
				}
			case "probe":
				if !have {
					res := a.Nav("relogin", 0, 0, op.Path, 6)
					if res.Final != nil && res.Final.Class == "ok" {
						created, lastUsed, have = res.Recs[0].T0, time.Now(), true
						memoryLost = false
					}
					continue
				}
				now := time.Now()
				var ex time.Time
				if abs > 0 {
					ex = created.Add(abs)
				}
				if idle > 0 {
					if t := lastUsed.Add(idle); ex.IsZero() || t.Before(ex) {
						ex = t
					}
				}
				state := "live"
				if !ex.IsZero() {
					if now.After(ex.Add(time.Second)) {
						state = "dead"
					} else if !now.Before(ex.Add(-time.Second)) {
						state = "edge"
					}
				}
				rec := a.Raw("probe:"+state, 0, 0, op.Path, "own")
				switch {
				case state == "dead" && rec.Class == "ok":
					which := "idle"
					if abs > 0 && now.After(created.Add(abs)) {
						which = "absolute"
					}
					w.violate("C10", "session-honoured-after-timeout:"+which+":system:"+f.Spec.Store, fmt.Sprintf("check #%d answered OK %v after creation and %v after last use (absolute_session_timeout=%v idle_session_timeout=%v, %s store, service assembled through the start-up wiring)", rec.N, now.Sub(created).Round(time.Second), now.Sub(lastUsed).Round(time.Second), abs, idle, f.Spec.Store))
					w.probe("system-reads-past-limits")
				case state == "dead":
					w.probe("system-reads-past-limits")
					have = false
				case state == "live" && rec.Class != "ok" && !memoryLost:
					w.violate("C10", "live-session-dropped:system:"+f.Spec.Store, fmt.Sprintf("check #%d answered %s although the session is %v old and was used %v ago (abs=%v idle=%v)", rec.N, rec.Class, now.Sub(created).Round(time.Second), now.Sub(lastUsed).Round(time.Second), abs, idle))
					have = false
				case state == "live" && rec.Class == "ok":
					w.probe("system-reads-inside-limits")
					lastUsed = now
				case rec.Class == "ok":
					lastUsed = now
				default:
					have = false
				}
				if rec.Class != "ok" {
					// the browser received a new session id with the redirect; follow it
					have = false
				}
			}
		}
		w.SimSecs = w.result().SimSecs
	})
	if infra != "" {
		return &Result{Infra: infra}
	}
	res := w.result().only("C10")
	res.SimSecs = w.SimSecs
	res.Nontrivial = w.Probes["system-reads-past-limits"]+w.Probes["system-reads-inside-limits"] > 0
	res.Summary = fmt.Sprintf("mode=system %s", describeSpec(p.Spec))
	return res
}
