//go:build verif

package verifsim

import (
	"context"
	"fmt"
	"sort"
	"strings"
	"time"

	"github.com/anishathalye/porcupine"

	"github.com/istio-ecosystem/authservice/internal/oidc"
)

// C12, concurrent clause: "each single operation of the in-memory store is atomic under concurrent
// use". Instrumented build: the memory store is pre-empted at every statement, including inside its
// critical sections. Histories are checked for linearizability with porcupine against the
// sequential map model, partitioned by session id.

type linIn struct {
	Kind string // settok gettok setstate getstate clear remove
	ID   string
	Val  string
}
type linOut struct {
	Val string // value read ("" = nil)
}

type linState struct {
	Exists bool
	Tok    string
	St     string
}

var linModel = porcupine.Model{
	Partition: func(history []porcupine.Operation) [][]porcupine.Operation {
		m := map[string][]porcupine.Operation{}
		for _, o := range history {
			id := o.Input.(linIn).ID
			m[id] = append(m[id], o)
		}
		keys := make([]string, 0, len(m))
		for k := range m {
			keys = append(keys, k)
		}
		sort.Strings(keys)
		var out [][]porcupine.Operation
		for _, k := range keys {
			out = append(out, m[k])
		}
		return out
	},
	Init: func() interface{} { return linState{} },
	Step: func(state, input, output interface{}) (bool, interface{}) {
		s := state.(linState)
		in := input.(linIn)
		out := output.(linOut)
		switch in.Kind {
		case "settok":
			s.Exists, s.Tok = true, in.Val
			return true, s
		case "setstate":
			s.Exists, s.St = true, in.Val
			return true, s
		case "gettok":
			return out.Val == s.Tok, s
		case "getstate":
			return out.Val == s.St, s
		case "clear":
			s.St = ""
			return true, s
		case "remove":
			return true, linState{}
		}
		return false, s
	},
	Equal: func(a, b interface{}) bool { return a.(linState) == b.(linState) },
	DescribeOperation: func(input, output interface{}) string {
		in := input.(linIn)
		return fmt.Sprintf("%s(%s,%s)->%s", in.Kind, in.ID, in.Val, output.(linOut).Val)
	},
}

func genC12Lin(r *Rng, p *Plan) {
	p.Mode = "concurrent-memory"
	p.Policy = r.Intn(2)
	nclients := r.Range(2, 4)
	nids := r.Range(1, 2)
	id := 0
	var par []Op
	for c := 0; c < nclients; c++ {
		n := r.Range(3, 6)
		var seq []Op
		for i := 0; i < n; i++ {
			id++
			kind := []string{"settok", "settok", "gettok", "gettok", "setstate", "getstate", "clear", "remove"}[r.Intn(8)]
			seq = append(seq, Op{ID: id, Kind: kind, B: r.Intn(nids)})
		}
		par = append(par, Op{ID: 1000 + c, Kind: "client", B: c, Par: seq})
	}
	p.Ops = []Op{{ID: 999, Kind: "par", Par: par}}
	if r.Chance(0.4) {
		// session timeouts configured but far away, and the store has been in use for a while: whatever housekeeping
		// the store does for timeouts (none on the unchanged tree) runs concurrently with the clients
		p.Ops[0].S = "timeouts-far-away"
		p.Ops[0].D = r.Range(61, 600)
	}
}

func runC12Lin(p *Plan) *Result {
	res := &Result{Probes: map[string]int{}, Faults: map[string]int{}}
	sim := NewSim(p.SchedSeed, p.Policy)
	installHooks(sim)
	defer removeHooks()
	store := oidc.NewMemoryStore(&oidc.Clock{}, 0, 0)
	ctx := context.Background()
	if len(p.Ops) == 0 || len(p.Ops[0].Par) == 0 {
		res.Infra = "empty concurrent plan"
		return res
	}
	if p.Ops[0].S == "timeouts-far-away" {
		store = oidc.NewMemoryStore(&oidc.Clock{}, 24*time.Hour, 24*time.Hour)
		_ = store.SetTokenResponse(ctx, "sess-warm-up", &oidc.TokenResponse{IDToken: "w"})
		time.Sleep(time.Duration(p.Ops[0].D) * time.Second)
		res.Probes["histories-with-timeouts-configured"]++
	}
	clients := p.Ops[0].Par
	type rec struct {
		in     linIn
		out    linOut
		call   int64
		ret    int64
		client int
	}
	recs := make([][]rec, len(clients))
	done := make(chan int, len(clients))
	sim.On = true
	for ci := range clients {
		ci := ci
		cl := &clients[ci]
		t := sim.NewTask(cl.ID, fmt.Sprintf("client%d", ci))
		sim.Go(t, func() {
			defer func() { done <- ci }()
			for i := range cl.Par {
				op := &cl.Par[i]
				sid := fmt.Sprintf("sess-%d", op.B)
				val := fmt.Sprintf("v%d", op.ID)
				in := linIn{Kind: op.Kind, ID: sid}
				out := linOut{}
				sim.Yield("invoke")
				sim.SetCur(t)
				call := sim.Tick()
				switch op.Kind {
				case "settok":
					in.Val = val
					_ = store.SetTokenResponse(ctx, sid, &oidc.TokenResponse{IDToken: val})
				case "setstate":
					in.Val = val
					_ = store.SetAuthorizationState(ctx, sid, &oidc.AuthorizationState{State: val, Nonce: "n", RequestedURL: "u", CodeVerifier: "c"})
				case "gettok":
					if tr, _ := store.GetTokenResponse(ctx, sid); tr != nil {
						out.Val = tr.IDToken
					}
				case "getstate":
					if as, _ := store.GetAuthorizationState(ctx, sid); as != nil {
						out.Val = as.State
					}
				case "clear":
					_ = store.ClearAuthorizationState(ctx, sid)
				case "remove":
					_ = store.RemoveSession(ctx, sid)
				}
				sim.SetCur(t)
				ret := sim.Tick()
				recs[ci] = append(recs[ci], rec{in, out, call, ret, ci})
			}
		})
	}
	for range clients {
		<-done
	}
	sim.On = false
	var ops []porcupine.Operation
	overlap := false
	var all []rec
	for _, rs := range recs {
		all = append(all, rs...)
	}
	for i, a := range all {
		ops = append(ops, porcupine.Operation{ClientId: a.client, Input: a.in, Call: a.call, Output: a.out, Return: a.ret})
		for _, b := range all[i+1:] {
			if a.client != b.client && a.in.ID == b.in.ID && a.call < b.ret && b.call < a.ret && (strings.HasPrefix(a.in.Kind, "set") || a.in.Kind == "remove") && (strings.HasPrefix(b.in.Kind, "set") || b.in.Kind == "remove") {
				overlap = true
			}
		}
	}
	verdict := porcupine.CheckOperationsTimeout(linModel, ops, 30*time.Second)
	res.Probes["linearizability-histories"]++
	if overlap {
		res.Probes["histories-with-overlapping-writers-on-one-id"]++
	}
	switch verdict {
	case porcupine.Illegal:
		var b strings.Builder
		sort.Slice(all, func(i, j int) bool { return all[i].call < all[j].call })
		for _, a := range all {
			fmt.Fprintf(&b, "[c%d %d-%d %s(%s,%s)->%q] ", a.client, a.call, a.ret, a.in.Kind, a.in.ID, a.in.Val, a.out.Val)
		}
		res.Viol = append(res.Viol, Violation{"C12", "memory-store-history-not-linearizable", "no sequential order of these overlapping operations explains the results: " + b.String()})
	case porcupine.Unknown:
		res.Probes["linearizability-inconclusive"]++
	}
	if sim.Overrun {
		res.Infra = "scheduler step budget exceeded"
	}
	res.Steps = sim.totalSteps()
	res.Nontrivial = overlap
	res.TraceHash = hash64(sim.TraceString())
	res.SchedHash = res.TraceHash
	res.SimSecs = time.Since(sim.epoch).Seconds()
	res.Summary = fmt.Sprintf("mode=concurrent-memory clients=%d ops=%d steps=%d", len(clients), len(all), sim.totalSteps())
	return res
}
