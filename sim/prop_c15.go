//go:build verif

package verifsim

import (
	"fmt"
	"strings"

	envoy "github.com/envoyproxy/go-control-plane/envoy/service/auth/v3"
)

// C15 — No request, IdP answer or store answer can crash a check. Fault kinds: malformed peer
// reply (token endpoint, JWKS, discovery), lying/corrupt store, hostile client. The oracle is
// recover() around Check (monPanic) plus verdict well-formedness.

func init() {
	register(&PropDef{ID: "C15", Gen: genC15, Run: runC15, NoBubble: true})
}

var tokenBodies = []string{
	`null`, `[]`, `"x"`, `123`, `true`, `{}`, ``, ` `, `{"id_token":null,"token_type":"Bearer"}`, `{"id_token":123,"token_type":"Bearer"}`,
	`{"id_token":"%ID%","token_type":"Bearer","expires_in":"3600"}`, `{"id_token":"%ID%","token_type":"Bearer","expires_in":1e999}`,
	`{"id_token":"%ID%","token_type":"Bearer","expires_in":-1}`, `{"id_token":"%ID%","token_type":"Bearer","expires_in":9223372036854775808}`,
	`{"id_token":"%ID%","token_type":"Bearer","expires_in":1.5}`, `{"id_token":"%ID%","token_type":"Bearer","expires_in":9223372036854775807,"access_token":"%AT%"}`,
	`{"id_token":"%ID%","token_type":["Bearer"]}`, `{"id_token":"%ID%","token_type":"Bearer","access_token":{"a":1}}`,
	`{"id_token":"%ID%","id_token":"x","token_type":"Bearer","token_type":"mac"}`, `{"id_token":"%ID%","token_type":"Bearer","refresh_token":null,"access_token":null,"expires_in":null}`,
	`{"id_token":"%ID%","token_type":"Bearer"`, "{\"id_token\":\"\xff\xfe\",\"token_type\":\"Bearer\"}", `{"id_token":"","token_type":"Bearer","access_token":"%AT%"}`,
	`{"ID_TOKEN":"%ID%","TOKEN_TYPE":"Bearer"}`, `{"id_token":"%ID%","token_type":"Bearer","expires_in":0,"access_token":"%AT%","refresh_token":""}`,
	`{"id_token":"a.b","token_type":"Bearer"}`, `{"id_token":"....","token_type":"Bearer"}`, `{"id_token":"eyJhbGciOiJub25lIn0.e30.","token_type":"Bearer"}`,
	`{"id_token":"eyJhbGciOiJFUzI1NiJ9.bnVsbA.AAAA","token_type":"Bearer"}`, `{"id_token":"eyJhbGciOiJFUzI1NiJ9.WzFd.AAAA","token_type":"Bearer"}`,
	`{"error":"invalid_grant"}`, `{"id_token":"%ID%","token_type":"Bearer","nested":{"a":{"b":{"c":[1,[2,[3,[4]]]]}}}}`,
	"DEEP", "HUGE",
}

var jwksBodies = []string{`null`, `{}`, `[]`, `{"keys":null}`, `{"keys":[null]}`, `{"keys":[{"kty":"EC"}]}`, `{"keys":[{"kty":"RSA","n":"!!","e":"AQAB"}]}`,
	`{"keys":[{"kty":"EC","crv":"P-256","x":"AA","y":"AA"}]}`, `{"keys":{}}`, `{"keys":[1,"a",[]]}`, `not json`, ``, `{"keys":[{"kty":"oct","k":"AAAA"}]}`}

var discBodies = []string{
	`{"authorization_endpoint":" http://idp-a.test/authorize","token_endpoint":"http://idp-a.test/token","jwks_uri":"http://idp-a.test/jwks"}`,
	`{"authorization_endpoint":"http://idp-a.test/authorize\n","token_endpoint":"http://idp-a.test/token","jwks_uri":"http://idp-a.test/jwks"}`,
	`{"authorization_endpoint":"http://[::1/authorize","token_endpoint":"http://idp-a.test/token","jwks_uri":"http://idp-a.test/jwks"}`,
	`{"authorization_endpoint":"http://idp-a.test:{port}/authorize","token_endpoint":"http://idp-a.test:port/token","jwks_uri":"http://idp-a.test/jwks"}`,
	`{"authorization_endpoint":"http://idp-a.test/%zz","token_endpoint":"%zz","jwks_uri":"http://idp-a.test/%zz"}`,
	`{"authorization_endpoint":"http://idp-a.test/authorize","token_endpoint":"http://idp-a.test/token","jwks_uri":"http://idp-a.test/jwks","end_session_endpoint":"http://[::1/x"}`,
	`null`, `{}`, `[]`, `{"authorization_endpoint":5}`, `{"authorization_endpoint":null,"token_endpoint":null,"jwks_uri":null}`, `not json`, ``,
	`{"authorization_endpoint":"","token_endpoint":"%%%","jwks_uri":"::::"}`, `{"authorization_endpoint":["a"]}`, `"x"`, `{"end_session_endpoint":{}}`}

var reqShapes = []string{"nil-request-msg", "nil-attributes", "nil-request", "nil-http", "empty-http", "nil-headers", "no-path", "path-no-slash", "path-only-query", "path-only-fragment",
	"path-percent", "huge-cookie", "cookie-garbage", "cookie-nul", "cookie-many-equals", "cookie-only-name", "host-empty", "host-weird", "huge-query", "callback-bad-escape",
	"callback-huge", "callback-empty-values", "callback-semicolons", "logout-with-garbage-cookie", "upper-case-header-keys", "scheme-empty", "unicode",
	"cookie-fuzz", "cookie-fuzz", "cookie-fuzz", "cookie-quotes", "path-fuzz"}

// nasty alphabet for seeded fuzz strings (cookie and path syntax characters, quotes, controls)
const fuzzAlphabet = "\"';=,: \t%&?#/\\[]{}<>ab0\x00\x7f\xff"

func fuzzString(r *Rng, n int) string {
	b := make([]byte, n)
	for i := range b {
		b[i] = fuzzAlphabet[r.Intn(len(fuzzAlphabet))]
	}
	return string(b)
}

func genC15(r *Rng, tier string, idx int) *Plan {
	p := &Plan{SchedSeed: r.U64()}
	p.Spec = genSpec(r, genOpts{Filters: 1, AllowRedis: true, Logout: 1, Triggers: true})
	k := &p.Spec.IdPs[0].Knobs
	k.Refresh = []string{"static", "rotate"}[r.Intn(2)]
	k.IDTokenTTL, k.ExpiresIn = 300, 300
	f := &p.Spec.Filters[0]
	id := 0
	nid := func() int { id++; return id }
	t := genTarget(r)
	if idx%8 == 7 {
		// concurrency: a logout / a second request of the same browser races the login callback or a refresh
		// (a session may vanish between two store calls of one check); slow provider vs. a one-second idle timeout
		p = genC09(r, tier, []int{1, 2}[r.Intn(2)])
		p.Mode = "concurrent-session-loss"
		if r.Bool() {
			p.Spec.Filters[0].IdleTimeout = 1
			p.Spec.IdPs[0].Knobs.LatencyUS = 2500000
		}
		return p
	}
	switch idx % 6 {
	case 0: // hostile client
		p.Mode = "hostile-client"
		p.Ops = append(p.Ops, Op{ID: nid(), Kind: "nav", Path: t})
		n := r.Range(3, 12)
		for i := 0; i < n; i++ {
			p.Ops = append(p.Ops, Op{ID: nid(), Kind: "rawreq", S: reqShapes[(idx/6+i)%len(reqShapes)]})
		}
	case 1: // malformed token-endpoint bodies at login and at refresh
		p.Mode = "token-body"
		if (idx/6)%3 == 2 {
			// ... or no HTTP answer at all: the transport fails
			p.Mode = "token-transport-fault"
			p.Faults = append(p.Faults, Fault{Site: "idp.token", Nth: 1, Kind: r.Pick([]string{"reset-before", "reset-after", "truncated"})},
				Fault{Site: "idp.token", Nth: r.Range(2, 3), Kind: r.Pick([]string{"reset-before", "reset-after", "500"})},
				Fault{Site: "net.dial", Nth: r.Range(3, 6), Kind: "refused"})
			if r.Bool() {
				// ... or the caller gives up while the provider is serving the request
				p.Faults = []Fault{{Site: "idp.token", Nth: r.Range(1, 3), Kind: "ctx-cancel"}, {Site: "store." + r.Pick(storeMethods), Nth: r.Range(1, 8), Kind: "ctx-cancel"}}
			}
		}
		b1, b2 := tokenBodies[(idx/6)%len(tokenBodies)], tokenBodies[r.Intn(len(tokenBodies))]
		p.Ops = append(p.Ops, Op{ID: nid(), Kind: "idp-raw", S: b1, D: 1}, Op{ID: nid(), Kind: "nav", Path: t}, Op{ID: nid(), Kind: "nav", Path: t},
			Op{ID: nid(), Kind: "adv", D: 400}, Op{ID: nid(), Kind: "idp-raw", S: b2, D: 1}, Op{ID: nid(), Kind: "send", Path: t, S: "own"}, Op{ID: nid(), Kind: "send", Path: t, S: "own"})
	case 2: // claims of unexpected type in honestly signed tokens
		p.Mode = "claim-types"
		pr := typeProductions[(idx/6)%len(typeProductions)]
		on := r.Pick([]string{"login", "refresh", "both"}) // (both: the stored token and the refreshed one carry the same unusual claim)
		p.Ops = append(p.Ops, Op{ID: nid(), Kind: "idp", Args: map[string]string{"byz": pr, "byz_on": on}}, Op{ID: nid(), Kind: "nav", Path: t},
			Op{ID: nid(), Kind: "adv", D: 400}, Op{ID: nid(), Kind: "send", Path: t, S: "own"}, Op{ID: nid(), Kind: "send", Path: t, S: "own"})
	case 3: // malformed JWKS / discovery documents
		p.Mode = "key-and-discovery-documents"
		if r.Bool() {
			f.JWKSFetch = true
			p.Ops = append(p.Ops, Op{ID: nid(), Kind: "idp-rawjwks", S: jwksBodies[(idx/6)%len(jwksBodies)]})
		} else {
			f.Discovery = true
			p.Ops = append(p.Ops, Op{ID: nid(), Kind: "idp-rawdisc", S: discBodies[(idx/6)%len(discBodies)]})
		}
		p.Ops = append(p.Ops, Op{ID: nid(), Kind: "nav", Path: t}, Op{ID: nid(), Kind: "send", Path: t, S: "own"}, Op{ID: nid(), Kind: "logout"})
	case 4: // lying / corrupt store
		p.Mode = "store-answers"
		p.Ops = append(p.Ops, Op{ID: nid(), Kind: "nav", Path: t}, Op{ID: nid(), Kind: "send", Path: t, S: "own"}, Op{ID: nid(), Kind: "adv", D: 400},
			Op{ID: nid(), Kind: "send", Path: t, S: "own"}, Op{ID: nid(), Kind: "begin", B: 1, Path: t}, Op{ID: nid(), Kind: "finish", B: 1}, Op{ID: nid(), Kind: "send", Path: t, S: "own"})
		lies := []string{"lie:empty", "lie:garbage-id", "lie:dots", "lie:b64-junk", "lie:payload-not-object", "lie:exp-string", "lie:honest-id-only"}
		p.Faults = append(p.Faults, Fault{Site: "store.GetTokenResponse", Nth: r.Range(1, 4), Kind: lies[(idx/6)%len(lies)]})
		if r.Bool() {
			p.Faults = append(p.Faults, Fault{Site: "store.GetAuthorizationState", Nth: r.Range(1, 3), Kind: "lie:empty"})
		}
		if f.Store == "redis" {
			p.Faults = append(p.Faults, Fault{Site: "store." + r.Pick(storeMethods), Nth: r.Range(1, 5), Kind: "corrupt:" + r.Pick([]string{"id_token", "access_token_expiry", "time_added", "refresh_token", "state", "nonce", "code_verifier"})})
		}
	case 5: // everything at once over a C01-style history
		p.Mode = "mixed"
		p.Ops = genHistory(r, p.Spec, r.Range(5, 25), true)
		for i := 0; i < 3; i++ {
			at := r.Intn(len(p.Ops) + 1)
			var op Op
			switch r.Intn(3) {
			case 0:
				op = Op{ID: 900 + i, Kind: "rawreq", S: r.Pick(reqShapes)}
			case 1:
				op = Op{ID: 900 + i, Kind: "idp-raw", S: r.Pick(tokenBodies), D: 1}
			default:
				op = Op{ID: 900 + i, Kind: "idp", Args: map[string]string{"byz": r.Pick(typeProductions), "byz_on": "both"}}
			}
			p.Ops = append(p.Ops[:at], append([]Op{op}, p.Ops[at:]...)...)
		}
	}
	return p
}

func hostileRequest(w *World, shape string) *envoy.CheckRequest {
	f := w.Filters[0]
	host, cookie := f.Spec.AppHost, f.Spec.CookieName()
	mk := func(path string, hdr map[string]string) *envoy.CheckRequest {
		return mkRequest("https", host, path, hdr)
	}
	switch shape {
	case "nil-request-msg":
		return nil
	case "nil-attributes":
		return &envoy.CheckRequest{}
	case "nil-request":
		return &envoy.CheckRequest{Attributes: &envoy.AttributeContext{}}
	case "nil-http":
		return &envoy.CheckRequest{Attributes: &envoy.AttributeContext{Request: &envoy.AttributeContext_Request{}}}
	case "empty-http":
		return &envoy.CheckRequest{Attributes: &envoy.AttributeContext{Request: &envoy.AttributeContext_Request{Http: &envoy.AttributeContext_HttpRequest{}}}}
	case "nil-headers":
		r := mk("/x", nil)
		r.Attributes.Request.Http.Headers = nil
		return r
	case "no-path":
		return mk("", map[string]string{"cookie": cookie + "=abc"})
	case "path-no-slash":
		return mk("x/y?z", nil)
	case "path-only-query":
		return mk("?code=a&state=b", map[string]string{"cookie": cookie + "=abc"})
	case "path-only-fragment":
		return mk("#", nil)
	case "path-percent":
		return mk("/%", map[string]string{"cookie": cookie + "=abc"})
	case "huge-cookie":
		return mk("/x", map[string]string{"cookie": cookie + "=" + strings.Repeat("A", 1<<20)})
	case "cookie-garbage":
		return mk("/x", map[string]string{"cookie": "=;=;;;;  ; = ;" + cookie + ";" + cookie + "=;==" + cookie})
	case "cookie-nul":
		return mk("/x", map[string]string{"cookie": cookie + "=a\x00b\r\nSet-Cookie: x=y"})
	case "cookie-many-equals":
		return mk("/x", map[string]string{"cookie": cookie + "=a=b=c; " + cookie + "=ok"})
	case "cookie-only-name":
		return mk("/x", map[string]string{"cookie": cookie})
	case "host-empty":
		return mkRequest("https", "", f.Spec.CallbackPath+"?code=a&state=b", map[string]string{"cookie": cookie + "=abc"})
	case "host-weird":
		return mkRequest("https", "[::1]:99999", f.Spec.CallbackPath+"?code=a&state=b", map[string]string{"cookie": cookie + "=abc"})
	case "huge-query":
		return mk("/x?"+strings.Repeat("a=b&", 100000), nil)
	case "callback-bad-escape":
		return mk(f.Spec.CallbackPath+"?code=%zz&state=%", map[string]string{"cookie": cookie + "=abc"})
	case "callback-huge":
		return mk(f.Spec.CallbackPath+"?code="+strings.Repeat("c", 1<<18)+"&state="+strings.Repeat("s", 1<<18), map[string]string{"cookie": cookie + "=abc"})
	case "callback-empty-values":
		return mk(f.Spec.CallbackPath+"?code=&state=&=&&&", map[string]string{"cookie": cookie + "=abc"})
	case "callback-semicolons":
		return mk(f.Spec.CallbackPath+"?code=a;state=b", map[string]string{"cookie": cookie + "=abc"})
	case "logout-with-garbage-cookie":
		return mk(f.Spec.Logout.Path, map[string]string{"cookie": cookie + "=\xff\xfe\x00"})
	case "upper-case-header-keys":
		r := mk("/x", nil)
		r.Attributes.Request.Http.Headers = map[string]string{"Cookie": cookie + "=abc", "COOKIE": "x"}
		return r
	case "scheme-empty":
		return mkRequest("", host, "/x", nil)
	case "cookie-fuzz":
		r := NewRng(w.valRng.U64())
		var parts []string
		for i, n := 0, r.Range(1, 5); i < n; i++ {
			name := cookie
			if r.Chance(0.4) {
				name = fuzzString(r, r.Range(0, 6))
			}
			parts = append(parts, name+"="+fuzzString(r, r.Range(0, 4)))
		}
		return mk(r.Pick([]string{"/x", f.Spec.CallbackPath + "?code=a&state=b", f.Spec.Logout.Path}), map[string]string{"cookie": strings.Join(parts, r.Pick([]string{"; ", ";", " ;  ", ","}))})
	case "cookie-quotes":
		r := NewRng(w.valRng.U64())
		v := r.Pick([]string{`"`, `""`, `"a`, `a"`, `"a"`, `'`, `"="`, `"\\"`})
		return mk("/x", map[string]string{"cookie": "theme=" + v + "; " + cookie + "=" + v + "; z=" + v})
	case "path-fuzz":
		r := NewRng(w.valRng.U64())
		return mk("/"+fuzzString(r, r.Range(0, 12)), map[string]string{"cookie": cookie + "=abc"})
	case "unicode":
		return mk("/‮\u0000/é?\xff=\xfe", map[string]string{"cookie": cookie + "=é‮"})
	}
	return mk("/x", nil)
}

func c15Exec(a *Agents, op *Op) {
	w := a.w
	switch op.Kind {
	case "rawreq":
		w.CheckRaw("rawreq:"+op.S, hostileRequest(w, op.S))
	case "idp-raw":
		body := op.S
		switch body {
		case "DEEP":
			body = strings.Repeat("[", 20000) + strings.Repeat("]", 20000)
		case "HUGE":
			body = `{"id_token":"` + strings.Repeat("A", 4<<20) + `","token_type":"Bearer"}`
		}
		p := w.IdPs[w.Spec.Filters[op.F].IdP]
		for i := 0; i < max(1, op.D); i++ {
			p.RawToken = append(p.RawToken, body)
		}
		w.logf("idp next token answer body: %.60q", body)
	case "idp-rawjwks":
		s := op.S
		w.IdPs[w.Spec.Filters[op.F].IdP].RawJWKS = &s
		w.countFault("jwks-raw-body")
	case "idp-rawdisc":
		s := op.S
		w.IdPs[w.Spec.Filters[op.F].IdP].RawDisc = &s
		w.countFault("discovery-raw-body")
	default:
		c09Exec(a, op)
	}
}

func runC15(p *Plan) *Result {
	var w *World
	infra := ""
	inBubble(func() {
		w = NewWorld(p.Spec, p.SchedSeed, p.Policy, p.Faults)
		w.StartNet(nil)
		defer w.Close()
		w.Boot()
		if w.Rep.BootErr != nil {
			infra = "generated configuration was rejected: " + w.Rep.BootErr.Error()
			return
		}
		a := w.NewAgents()
		for i := range p.Ops {
			c15Exec(a, &p.Ops[i])
		}
		if p.Mode == "concurrent-session-loss" {
			w.probe("concurrent-session-loss-runs")
		}
		w.SimSecs = w.result().SimSecs
	})
	if infra != "" {
		return &Result{Infra: infra}
	}
	res := w.result().only("C15")
	res.SimSecs = w.SimSecs
	reach := 0
	for k, v := range w.FaultsFired {
		if strings.HasPrefix(k, "byz:") || k == "token-raw-body" || k == "store-lie" || k == "store-field-corrupt" || k == "jwks-raw-body" || k == "discovery-raw-body" {
			reach += v
		}
	}
	res.Nontrivial = reach > 0 || w.Probes["raw-requests"] > 0 || w.Probes["concurrent-session-loss-runs"] > 0
	res.Summary = fmt.Sprintf("mode=%s %s", p.Mode, describeSpec(p.Spec))
	return res
}
