//go:build verif

package verifsim

import (
	"context"
	"fmt"
	"os"
	"path/filepath"
	"sort"
	"strings"
	"time"

	envoy "github.com/envoyproxy/go-control-plane/envoy/service/auth/v3"
	corev1 "k8s.io/api/core/v1"
	metav1 "k8s.io/apimachinery/pkg/apis/meta/v1"
	"k8s.io/apimachinery/pkg/types"
	ctrl "sigs.k8s.io/controller-runtime"

	"github.com/istio-ecosystem/authservice/internal/simsync"
)

// C16 — Concurrent checks and background updates are free of data races, of runtime-fatal concurrent
// map access and of deadlock. Decided by ThreadSanitizer (-race build) under the simulator's seeded,
// serial schedule: yields are fake-time sleeps, which add no happens-before edge between goroutines,
// so TSan judges the program's own synchronisation while the interleaving stays replayable.
// Task code in this file keeps all of its state task-local: nothing here may add synchronisation
// between tasks or race with itself.

func init() {
	register(&PropDef{ID: "C16", Gen: genC16, Run: runC16})
}

func genC16(r *Rng, tier string, idx int) *Plan {
	p := &Plan{SchedSeed: r.U64(), Policy: r.Intn(2)}
	nf := 1
	if r.Chance(0.3) {
		nf = 2
	}
	p.Spec = genSpec(r, genOpts{Filters: nf, AllowRedis: true, Logout: 1})
	p.Spec.LogLevel = []string{"", "error", "debug"}[r.Intn(3)]
	for i := range p.Spec.Filters {
		f := &p.Spec.Filters[i]
		switch r.Intn(4) {
		case 0:
			f.Discovery, f.JWKSFetch = false, false
		case 1:
			f.Discovery = true
		case 2:
			f.JWKSFetch = true
			f.Discovery = false
		case 3:
			f.Discovery, f.JWKSFetch = true, true
		}
		if f.Discovery && f.Logout != nil && r.Bool() {
			f.Logout.RedirectURI = ""
		}
		if r.Chance(0.35) {
			f.SecretRef = "oidc-secret"
		}
		if r.Chance(0.35) {
			// TLS to the provider with a watched CA file, polled every few milliseconds of fake time
			p.Spec.IdPs[i].Scheme = "https"
			f.CAFile = "ca.pem"
			f.CARefresh = []string{"0.001s", "0.003s"}[r.Intn(2)]
		}
		k := &p.Spec.IdPs[i].Knobs
		k.Refresh = "static"
		k.IDTokenTTL, k.ExpiresIn = 300, 300
		k.LatencyUS = []int{0, 30, 200}[r.Intn(3)]
		if r.Chance(0.3) {
			// session timeouts shorter than the token lifetime: the sessions of the "refresh" tasks have timed out
			// when the concurrent part starts, so concurrent checks make the store expire sessions while others read
			f.IdleTimeout = []int{100, 200}[r.Intn(2)]
			if r.Bool() {
				f.AbsTimeout = 250
			}
		}
	}
	if nf == 1 && r.Chance(0.25) {
		p.Spec.HandlerMode = true
		p.Spec.TriggerRules = nil
	}
	for i := range p.Spec.Filters {
		if p.Spec.Filters[i].Discovery && r.Chance(0.4) {
			// the provider's discovery endpoint fails a few times while checks are in flight
			for k := r.Range(1, 3); k > 0; k-- {
				p.Faults = append(p.Faults, Fault{Site: "idp.disc", Nth: r.Range(1, 4), Kind: "500"})
			}
			break
		}
	}
	id := 0
	n := r.Range(4, 12)
	kinds := []string{"nocookie", "login", "login", "fresh", "fresh", "refresh", "refresh", "logout", "callback-garbage", "reconcile", "ca-rewrite", "load-tls"}
	var par []Op
	reconciles := 0
	for i := 0; i < n; i++ {
		id++
		k := kinds[r.Intn(len(kinds))]
		if k == "reconcile" {
			// controller-runtime runs one Reconcile at a time per controller (MaxConcurrentReconciles = 1)
			reconciles++
			if reconciles > 1 {
				k = "login"
			}
		}
		op := Op{ID: id, Kind: k, F: r.Intn(nf), B: i, Path: genTarget(r)}
		if (k == "refresh" || k == "fresh") && r.Bool() {
			// several concurrent checks on ONE session (same cookie): D-1 is the task whose session is shared
			for j := range par {
				if par[j].Kind == k && par[j].F == op.F {
					op.D = j + 1
				}
			}
		}
		par = append(par, op)
	}
	p.Ops = []Op{{ID: 100, Kind: "par", Par: par}}
	if r.Chance(0.2) {
		// the watched CA file is unreadable as PEM when the service first uses it and is repaired while
		// requests keep arriving (the watcher's callback then finds no pooled configuration to update)
		p.Ops[0].S = "ca-initially-torn"
		p.Spec.IdPs[0].Scheme = "https"
		p.Spec.Filters[0].CAFile = "ca.pem"
		p.Spec.Filters[0].CARefresh = "0.001s"
		par := p.Ops[0].Par
		par[0].Kind = "ca-rewrite"
		for i := 1; i < len(par); i++ {
			if par[i].Kind == "fresh" || par[i].Kind == "refresh" || par[i].Kind == "logout" {
				par[i].Kind = "login"
			}
			par[i].F = 0
		}
		par = append(par, Op{ID: 90, Kind: "late-login", F: 0, B: 90, Path: "/late"})
		p.Ops[0].Par = par
	}
	return p
}

// direct drives one request through the real filter; everything it touches is local to the caller.
func direct(w *World, fi int, path, cookie string) (resp *envoy.CheckResponse, panicked any) {
	f := w.Filters[fi]
	hdr := map[string]string{}
	if cookie != "" {
		hdr["cookie"] = cookie
	}
	if m := f.Spec.Match; m != nil && !strings.HasPrefix(m.Header, ":") {
		v := m.Equality
		if v == "" {
			v = m.Prefix + "-x"
		}
		hdr[strings.ToLower(m.Header)] = v
	}
	defer func() {
		if p := recover(); p != nil {
			panicked = p
		}
	}()
	// the task identity travels in the request context (see World.taskOf)
	ctx := context.WithValue(context.Background(), taskKey{}, w.Sim.Cur())
	resp, _ = w.dispatch(ctx, fi, mkRequest("https", f.Spec.AppHost, path, hdr))
	return resp, nil
}

func respCookie(resp *envoy.CheckResponse) string {
	for _, v := range hdrVals(resp.GetDeniedResponse().GetHeaders(), "set-cookie") {
		if pc := parseSetCookie(v); pc.Name != "" {
			return pc.Name + "=" + pc.Value
		}
	}
	return ""
}

func respLocation(resp *envoy.CheckResponse) string {
	if l := hdrVals(resp.GetDeniedResponse().GetHeaders(), "location"); len(l) > 0 {
		return l[0]
	}
	return ""
}

// directLogin performs a whole login with direct calls and returns the session cookie ("" on failure).
func directLogin(w *World, fi, browser int, path string) (cookie string, panicked any) {
	f := w.Filters[fi]
	r1, p := direct(w, fi, path, "")
	if p != nil || r1 == nil {
		return "", p
	}
	cookie = respCookie(r1)
	ar := f.Authorize(respLocation(r1), browser)
	if ar.Code == "" || cookie == "" {
		return "", nil
	}
	_, _, cp, _ := splitURL(f.Spec.CallbackURI())
	r2, p := direct(w, fi, cp+cbSep(cp)+"code="+qEsc(ar.Code)+"&state="+qEsc(ar.Param("state")), cookie)
	if p != nil || r2 == nil {
		return "", p
	}
	_, p = direct(w, fi, path, cookie)
	return cookie, p
}

type raceOutcome struct {
	kind     string
	start    int64
	end      int64
	panicked any
	ok       bool
}

func runC16(p *Plan) *Result {
	spec := *p.Spec
	spec.Filters = append([]FilterSpec(nil), p.Spec.Filters...)
	spec.IdPs = append([]IdPSpec(nil), p.Spec.IdPs...)
	caPath := filepath.Join(penv.dir, fmt.Sprintf("race-ca-%d.pem", os.Getpid()))
	for i := range spec.Filters {
		if spec.Filters[i].CAFile != "" {
			spec.Filters[i].CAFile = caPath
			spec.IdPs[spec.Filters[i].IdP].ServerCA = 0
		}
	}
	initial := pki.CAs[0].PEM
	if len(p.Ops) > 0 && p.Ops[0].S == "ca-initially-torn" {
		initial = initial[:len(initial)/2]
	}
	_ = os.WriteFile(caPath, []byte(initial), 0o600)
	w := NewWorld(&spec, p.SchedSeed, p.Policy, nil)
	for _, ft := range p.Faults {
		if ft.Site == "idp.disc" {
			for _, ip := range w.IdPs {
				ip.LeanDiscFail = append(ip.LeanDiscFail, ft.Nth)
			}
		}
	}
	w.Lean = true
	installHooks(w.Sim)
	defer removeHooks()
	w.StartNet(nil)
	defer w.Close()
	w.k8sRef = map[string]string{}
	w.Boot()
	if w.Rep.BootErr != nil {
		r := w.result()
		r.Infra = "generated configuration was rejected: " + w.Rep.BootErr.Error()
		return r
	}
	ctx := context.Background()
	if w.K8s != nil {
		_ = w.K8s.Create(ctx, &corev1.Secret{ObjectMeta: metav1.ObjectMeta{Namespace: "default", Name: "oidc-secret"}, Data: map[string][]byte{"client-secret": []byte("k8s-secret-0")}})
		_, _ = w.Rep.secrets.Reconcile(ctx, ctrl.Request{NamespacedName: types.NamespacedName{Namespace: "default", Name: "oidc-secret"}})
		for _, f := range w.Filters {
			if f.Spec.SecretRef != "" {
				f.IdP.AcceptSecret = func(string) bool { return true } // which value arrives is C19's subject
			}
		}
	}
	if len(p.Ops) == 0 {
		return &Result{Infra: "empty plan"}
	}
	tasks := p.Ops[0].Par
	if p.Ops[0].S == "ca-initially-torn" {
		// first use fails to load the CA (the watcher is running by then); the file is repaired during a quiet
		// period, the watcher notices, and then requests arrive
		_, _ = direct(w, 0, "/warm-up", "")
		_ = os.WriteFile(caPath+".fix", []byte(pki.CAs[0].PEM), 0o600)
		_ = os.Rename(caPath+".fix", caPath)
		w.Advance(10*time.Millisecond + 300*time.Microsecond)
	}
	// ---- sequential set-up: sessions for the tasks that need one ----
	cookies := make([]string, len(tasks))
	needExpiry := false
	for i := range tasks {
		switch tasks[i].Kind {
		case "fresh", "logout", "refresh":
			c, pn := directLogin(w, tasks[i].F, 100+i, tasks[i].Path)
			if pn != nil {
				w.violate("C15", "panic-in-setup", fmt.Sprint(pn))
			}
			cookies[i] = c
			if tasks[i].Kind == "refresh" {
				needExpiry = true
			}
		}
	}
	share := func() {
		for i := range tasks {
			if d := tasks[i].D; d > 0 && d-1 < len(tasks) && (tasks[i].Kind == "refresh" || tasks[i].Kind == "fresh") {
				cookies[i] = cookies[d-1]
			}
		}
	}
	share()
	if needExpiry {
		// "fresh" sessions created now stay fresh: refresh ones are created first, then time passes
		w.Advance(301*time.Second + 500*time.Microsecond)
		for i := range tasks {
			if tasks[i].Kind == "fresh" || tasks[i].Kind == "logout" {
				cookies[i], _ = directLogin(w, tasks[i].F, 200+i, tasks[i].Path)
			}
		}
		share()
	}
	// ---- the concurrent part ----
	outs := make([]raceOutcome, len(tasks))
	done := make(chan int, len(tasks))
	main := w.Sim.Cur()
	w.Sim.On = true
	for i := range tasks {
		i := i
		op := &tasks[i]
		t := w.Sim.NewTask(op.ID, op.Kind)
		w.Sim.Go(t, func() {
			o := &outs[i]
			defer func() {
				if r := recover(); r != nil {
					o.panicked = r
				}
				done <- i
			}()
			o.kind = op.Kind
			o.start = w.Sim.Tick()
			f := w.Filters[op.F]
			switch op.Kind {
			case "nocookie":
				_, o.panicked = direct(w, op.F, op.Path, "")
			case "login":
				_, o.panicked = directLogin(w, op.F, op.B, op.Path)
			case "late-login":
				// arrives after the watcher had time to notice the repaired file
				w.Sim.SleepAs(t, 8*time.Millisecond)
				w.Sim.SetCur(t)
				_, o.panicked = directLogin(w, op.F, op.B, op.Path)
			case "fresh", "refresh":
				var r *envoy.CheckResponse
				r, o.panicked = direct(w, op.F, op.Path, cookies[i])
				o.ok = r.GetStatus().GetCode() == 0
			case "logout":
				if f.Spec.Logout != nil {
					_, o.panicked = direct(w, op.F, f.Spec.Logout.Path, cookies[i])
				}
			case "callback-garbage":
				_, o.panicked = direct(w, op.F, f.Spec.CallbackPath+"?code=x&state=y", f.Spec.CookieName()+"=unknownsession")
			case "reconcile":
				if w.K8s != nil {
					s := &corev1.Secret{}
					key := types.NamespacedName{Namespace: "default", Name: "oidc-secret"}
					if w.K8s.Get(ctx, key, s) == nil {
						s.Data["client-secret"] = []byte(fmt.Sprintf("k8s-secret-%d", op.ID))
						_ = w.K8s.Update(ctx, s)
					}
					w.Sim.Yield("reconcile")
					w.Sim.SetCur(t)
					_, _ = w.Rep.secrets.Reconcile(ctx, ctrl.Request{NamespacedName: key})
				}
			case "ca-rewrite":
				content := pki.CAs[0].PEM
				if op.ID%2 == 0 {
					content += pki.CAs[1].PEM
				}
				tmp := caPath + fmt.Sprintf(".%d.tmp", op.ID)
				_ = os.WriteFile(tmp, []byte(content), 0o600)
				_ = os.Rename(tmp, caPath)
				// stay around for a few polls of the watcher
				for k := 0; k < 4; k++ {
					w.Sim.SleepAs(t, time.Millisecond)
					w.Sim.SetCur(t)
					w.Sim.Yield("ca-wait")
					w.Sim.SetCur(t)
				}
			case "load-tls":
				_, _ = w.Rep.tlsPool.LoadTLSConfig(f.Cfg)
			}
			o.end = w.Sim.Tick()
		})
	}
	finished := 0
	timeout := time.After(10 * time.Minute) // fake time: generous step budget after the last fault
	for finished < len(tasks) {
		select {
		case <-done:
			finished++
		case <-timeout:
			w.Sim.On = false
			w.violate("C16", "tasks-do-not-finish", fmt.Sprintf("%d of %d tasks did not complete within 10 simulated minutes (deadlock or livelock)", len(tasks)-finished, len(tasks)))
			finished = len(tasks)
		}
	}
	w.Sim.On = false
	w.Sim.SetCur(main)
	if simsync.Deadlocks > 0 {
		w.violate("C16", "lock-not-acquired", "a lock of an instrumented file was not acquired within the step budget (deadlock)")
	}
	for _, bp := range takeBgPanics() {
		if strings.Contains(bp, "simsync") {
			w.violate("C16", "lock-not-acquired", "background goroutine: "+bp)
		} else {
			w.violate("C16", "panic-in-background-goroutine", bp)
		}
	}
	overl := map[string]bool{}
	for i := range outs {
		if outs[i].panicked != nil {
			w.violate("C15", "panic-under-concurrency:"+outs[i].kind, fmt.Sprint(outs[i].panicked))
			if strings.Contains(fmt.Sprint(outs[i].panicked), "simsync") {
				w.violate("C16", "lock-not-acquired", fmt.Sprintf("task %s: %v", outs[i].kind, outs[i].panicked))
			}
		}
		for j := i + 1; j < len(outs); j++ {
			if outs[i].start < outs[j].end && outs[j].start < outs[i].end {
				a, b := outs[i].kind, outs[j].kind
				if a > b {
					a, b = b, a
				}
				overl[a+"+"+b] = true
			}
		}
	}
	res := w.result().only("C16")
	for k := range overl {
		res.Probes["overlap:"+k]++
	}
	res.Probes["task-kind-pairs-overlapped"] = len(overl)
	res.Nontrivial = len(overl) > 0
	ks := make([]string, 0, len(overl))
	for k := range overl {
		ks = append(ks, k)
	}
	sort.Strings(ks)
	res.TraceHash = hash64(w.Sim.TraceString())
	res.Summary = fmt.Sprintf("tasks=%d overlaps=%s %s", len(tasks), strings.Join(ks, ","), describeSpec(p.Spec))
	return res
}
