//go:build verif

package verifsim

import (
	"fmt"
	"time"
)

// C18 — OIDC filters are isolated from one another.

func init() {
	register(&PropDef{ID: "C18", Gen: genC18, Run: runC18, NoBubble: true})
}

func genC18(r *Rng, tier string, idx int) *Plan {
	p := &Plan{SchedSeed: r.U64()}
	nf := r.Range(2, 3)
	p.Spec = genSpec(r, genOpts{Filters: nf, NoFetch: r.Bool(), Timeouts: true, Logout: 0})
	topo := []string{"shared-memory", "shared-redis", "distinct-redis", "mixed", "same-server-different-db", "tenants-of-one-provider"}[idx%6]
	if idx%12 == 9 {
		// mixed stores, and the Redis server of one filter refuses connections while the service starts
		topo = "redis-unreachable-at-start-up"
	}
	if idx%12 == 3 {
		// every filter discovers its provider and leaves the logout redirect to the discovered end-session endpoint;
		// the common settings (the logout path among them) sit in default_oidc_config
		topo = "discovered-logout"
	}
	if topo == "tenants-of-one-provider" {
		// the filters use different tenants (policies) of ONE provider host: same discovery path, selected by query
		for i := range p.Spec.IdPs {
			p.Spec.IdPs[i].Host = "login.idp-shared.test"
			p.Spec.IdPs[i].PathPfx = "/tenant/" + p.Spec.IdPs[i].Name
			p.Spec.IdPs[i].SharedDisc = true
			p.Spec.IdPs[i].AuthQuery = ""
			p.Spec.Filters[i].Discovery = true
			p.Spec.Filters[i].JWKSFetch = false
		}
	}
	for i := range p.Spec.Filters {
		f := &p.Spec.Filters[i]
		switch topo {
		case "shared-memory":
			f.Store = "memory"
		case "shared-redis":
			f.Store = "redis"
		case "distinct-redis":
			f.Store = []string{"redis", "redis2", "redis"}[i]
		case "tenants-of-one-provider":
			f.Store = []string{"redis", "redis2", "redisdb1"}[i]
		case "same-server-different-db":
			// one Redis server, separate logical databases: separate keyspaces, separate stores
			f.Store = []string{"redis", "redisdb1", "redis2"}[i]
		case "discovered-logout":
			f.Store = []string{"memory", "redis", "memory"}[i]
			f.Discovery = true
			f.Logout = &LogoutCfg{Path: "/logout"}
			p.Spec.UseOverride = true
		case "redis-unreachable-at-start-up":
			f.Store = []string{"memory", "redis2", "memory"}[i]
			p.Spec.RedisDownAtBoot = "redis2"
		default:
			f.Store = []string{"memory", "redis", "memory"}[i]
		}
		// distinct prefixes, or the same cookie name on different hosts
		if r.Chance(0.3) {
			f.CookiePrefix = ""
		} else if f.CookiePrefix == "" {
			f.CookiePrefix = "f" + string(rune('a'+i))
		}
		k := &p.Spec.IdPs[i].Knobs
		k.IDTokenTTL, k.ExpiresIn = 400*86400, 3600
		k.OmitExpiresIn = true // tokens stay fresh: timeouts are the session's, not the tokens'
		k.Refresh = []string{"none", "static"}[r.Intn(2)]
	}
	if r.Chance(0.15) {
		// one OIDC client registered for two chains that differ in everything else
		p.Spec.Filters[1].ClientID = p.Spec.Filters[0].ClientID
	}
	if r.Chance(0.2) {
		// chain names are free-form labels (logging); nothing requires them to differ
		for i := range p.Spec.Filters {
			p.Spec.Filters[i].Chain = "oidc"
		}
	}
	p.Mode = topo
	id := 0
	nid := func() int { id++; return id }
	t := genTarget(r)
	// A browser logs in at filter a, then presents a's session to the other filters in every way
	a, b := 0, 1
	if r.Bool() {
		a, b = 1, 0
	}
	if r.Bool() {
		// logins at all filters at the same time: every filter must serve its own login with its own endpoints
		var par []Op
		for i := 0; i < nf; i++ {
			par = append(par, Op{ID: nid(), Kind: "nav", B: 10 + i, F: i, Path: t})
		}
		p.Ops = append(p.Ops, Op{ID: nid(), Kind: "par-logins", Par: par})
		p.Policy = r.Intn(2)
	}
	p.Ops = append(p.Ops, Op{ID: nid(), Kind: "nav", B: 0, F: a, Path: t})
	modes := []string{fmt.Sprintf("from-filter:%d", a), fmt.Sprintf("both-from:%d", a)}
	for _, m := range modes {
		if r.Chance(0.8) {
			p.Ops = append(p.Ops, Op{ID: nid(), Kind: "send", B: 0, F: b, Path: t, S: m})
		}
	}
	if nf == 3 && r.Bool() {
		p.Ops = append(p.Ops, Op{ID: nid(), Kind: "send", B: 0, F: 2, Path: t, S: fmt.Sprintf("from-filter:%d", a)})
	}
	// mid-login: a's pending state and code presented at b's callback
	if r.Chance(0.6) {
		p.Ops = append(p.Ops, Op{ID: nid(), Kind: "begin", B: 1, F: a, Path: t},
			Op{ID: nid(), Kind: "xcb", B: 1, F: b, D: a})
	}
	// the browser also has a legitimate session at b; each filter must keep serving its own
	if r.Chance(0.7) {
		p.Ops = append(p.Ops, Op{ID: nid(), Kind: "nav", B: 0, F: b, Path: t}, Op{ID: nid(), Kind: "send", B: 0, F: b, Path: t, S: "own"},
			Op{ID: nid(), Kind: "send", B: 0, F: a, Path: t, S: fmt.Sprintf("from-filter:%d", b)}, Op{ID: nid(), Kind: "send", B: 0, F: a, Path: t, S: "own"})
	}
	if r.Chance(0.5) {
		// a refresh at one filter right after a code exchange at another (whatever an exchange leaves behind in the
		// process must not reach the other filter's provider)
		p.Ops = append(p.Ops, Op{ID: nid(), Kind: "refresh-after-other-login", B: 20, F: b, D: a, Path: t})
	}
	if topo == "discovered-logout" {
		// each filter has served requests; then a browser logs out at each of them, in both orders
		for _, fi := range []int{b, a} {
			p.Ops = append(p.Ops, Op{ID: nid(), Kind: "nav", B: 30 + fi, F: fi, Path: t}, Op{ID: nid(), Kind: "logout", B: 30 + fi, F: fi})
		}
	}
	// per-filter limits: probe each filter's own session on both sides of its own limits
	for i := 0; i < nf; i++ {
		p.Ops = append(p.Ops, Op{ID: nid(), Kind: "limits", B: 2 + i, F: i, Path: t, D: r.Intn(2)})
	}
	return p
}

func runC18(p *Plan) *Result {
	var w *World
	infra := ""
	inBubble(func() {
		w = NewWorld(p.Spec, p.SchedSeed, p.Policy, nil)
		w.StartNet(nil)
		defer w.Close()
		w.Boot()
		if w.Rep.BootErr != nil && p.Spec.RedisDownAtBoot != "" {
			// a filter whose session store cannot be reached must not be served from anything else: refusing to
			// start is the behaviour on the unchanged tree
			w.probe("start-up-refused-while-a-redis-server-is-unreachable")
			return
		}
		if w.Rep.BootErr != nil {
			infra = "generated configuration was rejected: " + w.Rep.BootErr.Error()
			return
		}
		w.crossFilterKnown = true // C04/C02 side effects of a cross-filter session are C18's to report
		a := w.NewAgents()
		for i := range p.Ops {
			op := &p.Ops[i]
			switch op.Kind {
			case "xcb":
				// callback of filter F delivered with the code/state of the login pending at filter D
				src := a.LastAuth[key(op.B, op.D)]
				if src == nil || src.Code == "" {
					continue
				}
				f := w.Filters[op.F]
				_, _, cp, _ := splitURL(f.Spec.CallbackURI())
				a.Raw("xcb", op.B, op.F, cp+cbSep(cp)+"code="+qEsc(src.Code)+"&state="+qEsc(src.Param("state")), fmt.Sprintf("from-filter:%d", op.D))
			case "limits":
				c18Limits(w, a, op)
			case "refresh-after-other-login":
				fb := w.Filters[op.F]
				if fb.IdP.Knobs.Refresh == "none" {
					continue
				}
				old := fb.IdP.Knobs
				fb.IdP.Knobs.IDTokenTTL, fb.IdP.Knobs.ExpiresIn, fb.IdP.Knobs.OmitExpiresIn = 60, 60, false
				res := a.Nav("rl-login", op.B, op.F, op.Path, 6)
				fb.IdP.Knobs = old
				if res.Final == nil || res.Final.Class != "ok" {
					continue
				}
				w.Advance(70 * time.Second)
				a.Nav("rl-other-login", op.B+1, op.D, op.Path, 6)
				rec := a.Raw("rl-refresh", op.B, op.F, op.Path, "own")
				w.probe("refresh-after-another-filters-login")
				if rec.Class != "ok" && len(rec.TokenReqs) > 0 && rec.TokenReqs[0].Status != 200 {
					w.violate("C18", "refresh-fails-after-another-filters-exchange", fmt.Sprintf("check #%d: filter %s's refresh was answered %d by its own provider right after a code exchange at filter %s (%s)", rec.N, fb.Spec.Chain, rec.TokenReqs[0].Status, w.Filters[op.D].Spec.Chain, sortedProblems(rec.TokenReqs[0].Problems)))
				}
			case "par-logins":
				a.Par(op.Par)
				w.probe("concurrent-logins-at-different-filters")
				for _, o := range op.Par {
					var last *CheckRec
					for _, c := range w.Checks {
						if c.Browser == o.B {
							last = c
						}
					}
					if last == nil || last.Class != "ok" {
						cls := "none"
						if last != nil {
							cls = fmt.Sprintf("%s (grpc code %d)", last.Class, last.Code)
						}
						w.violate("C18", "login-fails-while-another-filter-is-in-use", fmt.Sprintf("logins were started at all %d filters at the same time; the one at filter %s ended with %s", len(op.Par), w.Filters[o.F].Spec.Chain, cls))
					}
				}
			case "nav":
				res := a.Nav("nav", op.B, op.F, op.Path, 6)
				if res.Final == nil || res.Final.Class != "ok" {
					stuck := res.Stuck
					if len(stuck) > 160 {
						stuck = stuck[:160]
					}
					w.violate("C18", "login-at-a-filter-does-not-complete", fmt.Sprintf("a plain login at filter %s (no faults) did not reach OK: %s", w.Filters[op.F].Spec.Chain, stuck))
				}
			default:
				a.Exec(op)
			}
		}
		w.SimSecs = w.result().SimSecs
	})
	if infra != "" {
		return &Result{Infra: infra}
	}
	res := w.result().only("C18")
	res.SimSecs = w.SimSecs
	res.Nontrivial = w.Probes["foreign-session-presented"] > 0
	res.Summary = fmt.Sprintf("topology=%s %s", p.Mode, describeSpec(p.Spec))
	return res
}

// c18Limits logs a fresh browser in at filter F and probes the session around F's OWN limits.
func c18Limits(w *World, a *Agents, op *Op) {
	f := w.Filters[op.F]
	abs, idle := time.Duration(f.Spec.AbsTimeout)*time.Second, time.Duration(f.Spec.IdleTimeout)*time.Second
	res := a.Nav("limits-login", op.B, op.F, op.Path, 6)
	if res.Final == nil || res.Final.Class != "ok" {
		return
	}
	created := res.Recs[0].T0
	lastUsed := time.Now()
	probe := func(label string) *CheckRec { return a.Raw(label, op.B, op.F, op.Path, "own") }
	// does this filter share its store instance with a filter whose limits differ? (part of the signature:
	// the known defect is "one store instance, one filter's limits"; with a store of its own, or equal
	// limits everywhere, the same symptom is a different defect)
	sharing := "store-not-shared-with-other-limits"
	owner := f.Idx // the filter whose limits the shared store instance carries on the unchanged tree: the FIRST
	// memory-backed filter for the in-memory store, the LAST filter naming a Redis URI for that Redis store
	for _, o := range w.Filters {
		if o.Spec.Store != f.Spec.Store {
			continue
		}
		if o.Idx != f.Idx && (o.Spec.AbsTimeout != f.Spec.AbsTimeout || o.Spec.IdleTimeout != f.Spec.IdleTimeout) {
			sharing = "store-shared-with-other-limits"
		}
		if f.Spec.Store == "memory" && o.Idx < owner || f.Spec.Store != "memory" && o.Idx > owner {
			owner = o.Idx
		}
	}
	if sharing == "store-shared-with-other-limits" && owner == f.Idx {
		// the known defect ("one store instance, one filter's limits") explains wrong limits for the OTHER filters
		// of the store, never for the one whose limits the store was built with
		sharing = "store-shared-but-built-with-this-filters-limits"
	}
	// choose which limit to probe
	limit, which := idle, "idle"
	if idle == 0 || abs > 0 && (op.D == 1 || abs < idle) {
		limit, which = abs, "absolute"
	}
	if limit == 0 {
		// no limit configured for this filter: the session must survive a long time (another filter's limit must not apply)
		w.Advance(3 * 24 * time.Hour)
		if rec := probe("limits:none"); rec.Class != "ok" {
			w.violate("C18", "filter-without-timeouts-loses-session:"+f.Spec.Store+":"+sharing, fmt.Sprintf("check #%d: filter %s configures no session timeout but its session was dropped after 3 days (another filter's limits applied?)", rec.N, f.Spec.Chain))
		}
		w.probe("own-limits-probed")
		return
	}
	if which == "absolute" && idle > 0 {
		// keep the session in use so that only the absolute limit can end it
		for time.Since(created)+idle/2 < abs-2*time.Second && idle > 4*time.Second {
			w.Advance(idle / 2)
			if rec := probe("limits:keepalive"); rec.Class != "ok" {
				w.violate("C18", "session-dropped-inside-own-limits:"+f.Spec.Store+":"+sharing, fmt.Sprintf("check #%d: filter %s (abs=%v idle=%v) dropped a session %v old used %v ago", rec.N, f.Spec.Chain, abs, idle, time.Since(created).Round(time.Second), time.Since(lastUsed).Round(time.Second)))
				return
			}
			lastUsed = time.Now()
		}
		if idle <= 4*time.Second {
			return
		}
	}
	var until time.Time
	if which == "absolute" {
		until = created.Add(abs)
	} else {
		until = lastUsed.Add(idle)
		if abs > 0 && created.Add(abs).Before(until) {
			until = created.Add(abs)
		}
	}
	if d := time.Until(until) - 2*time.Second; d > 0 {
		w.Advance(d)
		rec := probe("limits:before-" + which)
		if rec.Class != "ok" {
			w.violate("C18", "session-dropped-inside-own-limits:"+f.Spec.Store+":"+sharing, fmt.Sprintf("check #%d: filter %s (abs=%v idle=%v) dropped its session 2 s before its own %s limit", rec.N, f.Spec.Chain, abs, idle, which))
			return
		}
		lastUsed = time.Now()
		if which == "idle" {
			until = lastUsed.Add(idle)
			if abs > 0 && created.Add(abs).Before(until) {
				until = created.Add(abs)
			}
		}
	}
	w.Advance(time.Until(until) + 2*time.Second)
	rec := probe("limits:after-" + which)
	if rec.Class == "ok" {
		w.violate("C18", "session-outlives-own-limits:"+which+":"+f.Spec.Store+":"+sharing, fmt.Sprintf("check #%d: filter %s (abs=%v idle=%v) still honours its session 2 s after its own %s limit", rec.N, f.Spec.Chain, abs, idle, which))
	}
	w.probe("own-limits-probed")
}
