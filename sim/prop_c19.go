//go:build verif

package verifsim

import (
	"context"
	"fmt"
	"strings"
	"time"

	corev1 "k8s.io/api/core/v1"
	metav1 "k8s.io/apimachinery/pkg/apis/meta/v1"
	"k8s.io/apimachinery/pkg/types"
	ctrl "sigs.k8s.io/controller-runtime"
)

// C19 — Kubernetes client-secret changes reach exactly the filters that reference them.
// The simulator plays the API server (fake client) and the manager: it delivers reconcile requests
// with duplication, delay and reordering, interleaved with logins and refreshes.

func init() {
	register(&PropDef{ID: "C19", Gen: genC19, Run: runC19, NoBubble: true})
}

func genC19(r *Rng, tier string, idx int) *Plan {
	p := &Plan{SchedSeed: r.U64()}
	nf := r.Range(1, 4)
	if idx%10 == 9 {
		nf = r.Range(2, 4)
	}
	p.Spec = genSpec(r, genOpts{Filters: nf, NoFetch: true, NoDiscovery: true, ForceStore: "memory"})
	names := []string{"oidc-secret", "shared-secret", "team-b-secret"}
	refs := map[string]bool{}
	for i := range p.Spec.Filters {
		f := &p.Spec.Filters[i]
		switch r.Intn(4) {
		case 0: // inline secret
		case 1:
			f.SecretRef = "shared-secret"
		default:
			f.SecretRef = names[r.Intn(len(names))]
		}
		if f.SecretRef != "" {
			refs[f.SecretRef] = true
			if r.Chance(0.3) {
				f.SecretRefNS = "default" // explicit own namespace is fine
			}
		}
		k := &p.Spec.IdPs[i].Knobs
		k.Refresh = "static"
		k.IDTokenTTL, k.ExpiresIn = 300, 300
	}
	if idx%10 == 9 {
		// a cross-namespace reference must be refused at start-up
		p.Mode = "cross-namespace"
		k := r.Intn(nf)
		f := &p.Spec.Filters[k]
		f.SecretRef, f.SecretRefNS = "oidc-secret", "kube-system"
		// ... possibly after an earlier filter that references the same name in the own namespace
		if k > 0 && r.Bool() {
			p.Spec.Filters[0].SecretRef, p.Spec.Filters[0].SecretRefNS = "oidc-secret", r.Pick([]string{"", "default"})
		}
		if k+1 < nf && r.Bool() {
			p.Spec.Filters[k+1].SecretRef, p.Spec.Filters[k+1].SecretRefNS = "oidc-secret", ""
		}
		return p
	}
	if len(refs) == 0 {
		p.Spec.Filters[0].SecretRef = "oidc-secret"
		refs["oidc-secret"] = true
	}
	p.Mode = "events"
	id := 0
	nid := func() int { id++; return id }
	t := genTarget(r)
	var pending []Op // reconcile requests not yet delivered
	deliver := func() {
		if len(pending) == 0 {
			return
		}
		i := 0
		if r.Chance(0.3) {
			i = r.Intn(len(pending)) // reordering
		}
		op := pending[i]
		op.ID = nid()
		if r.Chance(0.25) {
			// the API server fails the controller's read once: the reconcile returns an error and is re-queued
			op.Args = map[string]string{"name": op.Args["name"], "ns": op.Args["ns"], "fail": "1"}
		}
		p.Ops = append(p.Ops, op)
		if r.Chance(0.2) {
			dup := op
			dup.ID = nid()
			p.Ops = append(p.Ops, dup) // duplication
		}
		pending = append(pending[:i], pending[i+1:]...)
	}
	all := append([]string{"unrelated-secret"}, names...)
	n := r.Range(4, 20)
	for i := 0; i < n; i++ {
		switch r.Intn(10) {
		case 0, 1, 2, 3:
			name := all[r.Intn(len(all))]
			ns := "default"
			if r.Chance(0.15) {
				ns = "other-ns"
			}
			action := r.Pick([]string{"set", "set", "set", "set", "delete", "deleting", "remove-key", "empty", "replace"})
			args := map[string]string{"name": name, "ns": ns, "value": fmt.Sprintf("k8s-%s-%s-%d-%s", ns, name, i, r.Str(8))}
			if r.Chance(0.3) {
				args["immutable"] = "1" // (takes effect when this operation creates the object)
			}
			p.Ops = append(p.Ops, Op{ID: nid(), Kind: "secret", S: action, Args: args})
			pending = append(pending, Op{Kind: "reconcile", Args: map[string]string{"name": name, "ns": ns}})
			if r.Chance(0.6) {
				deliver()
			}
		case 4, 5:
			deliver()
		case 6:
			p.Ops = append(p.Ops, Op{ID: nid(), Kind: "nav", B: r.Intn(2), F: r.Intn(nf), Path: t})
		case 7:
			p.Ops = append(p.Ops, Op{ID: nid(), Kind: "adv", D: 301}, Op{ID: nid(), Kind: "send", B: r.Intn(2), F: r.Intn(nf), Path: t, S: "own"})
		case 8:
			p.Ops = append(p.Ops, Op{ID: nid(), Kind: "logout-all"})
		case 9:
			p.Ops = append(p.Ops, Op{ID: nid(), Kind: "reconcile", Args: map[string]string{"name": "never-existed", "ns": "default"}})
		}
	}
	for len(pending) > 0 {
		deliver()
	}
	if idx%5 == 3 {
		// a rotation lands while a login callback / a refresh is in flight: the token request it makes after the
		// reconcile has completed must already carry the new value
		p.Mode = "in-flight"
		p.Policy = r.Intn(2)
		for k := 0; k < 2; k++ {
			fi := r.Intn(nf)
			ref := p.Spec.Filters[fi].SecretRef
			if ref == "" {
				continue
			}
			val := fmt.Sprintf("k8s-default-%s-inflight-%d-%s", ref, k, r.Str(8))
			par := []Op{{ID: nid(), Kind: "finish", B: 5, F: fi}, {ID: nid(), Kind: "reconcile", Args: map[string]string{"name": ref, "ns": "default"}}}
			if r.Bool() {
				par[0], par[1] = par[1], par[0]
			}
			p.Ops = append(p.Ops, Op{ID: nid(), Kind: "begin", B: 5, F: fi, Path: t},
				Op{ID: nid(), Kind: "secret", S: "set", Args: map[string]string{"name": ref, "ns": "default", "value": val}},
				Op{ID: nid(), Kind: "par", Par: par})
		}
	}
	// traffic after the last reconcile: every filter logs in and refreshes
	for f := 0; f < nf; f++ {
		p.Ops = append(p.Ops, Op{ID: nid(), Kind: "nav", B: 3, F: f, Path: t}, Op{ID: nid(), Kind: "adv", D: 301}, Op{ID: nid(), Kind: "send", B: 3, F: f, Path: t, S: "own"})
	}
	return p
}

func runC19(p *Plan) *Result {
	var w *World
	infra := ""
	inBubble(func() {
		w = NewWorld(p.Spec, p.SchedSeed, p.Policy, nil)
		w.StartNet(nil)
		defer w.Close()
		w.k8sRef = map[string]string{}
		w.Boot()
		if p.Mode == "cross-namespace" {
			if w.Rep.BootErr == nil || !strings.Contains(w.Rep.BootErr.Error(), "cross-namespace") {
				w.violate("C19", "cross-namespace-reference-not-refused", fmt.Sprintf("start-up with a client_secret_ref into namespace kube-system: %v", w.Rep.BootErr))
			}
			w.probe("cross-namespace-start-ups")
			return
		}
		if w.Rep.BootErr != nil {
			infra = "generated configuration was rejected: " + w.Rep.BootErr.Error()
			return
		}
		// the providers accept exactly the reference value of the Secret each filter references
		for _, f := range w.Filters {
			f := f
			if f.Spec.SecretRef == "" {
				continue
			}
			f.IdP.AcceptSecret = func(sec string) bool { return true } // decided at arrival, below
			f.IdP.OnArrival = func(tr *TokenReq) {
				want, ok := w.k8sRef[f.Spec.SecretRef]
				if !ok {
					return // no reconcile of this Secret has completed yet: nothing is promised
				}
				w.probe("token-requests-after-reconcile")
				tr.RefSecret, tr.RefKnown = want, true
			}
		}
		a := w.NewAgents()
		ctx := context.Background()
		var exec func(a *Agents, op *Op)
		exec = func(a *Agents, op *Op) {
			switch op.Kind {
			case "par":
				a.parWith(op.Par, exec)
			case "secret":
				c19Secret(w, op)
			case "reconcile":
				name, ns := op.Args["name"], op.Args["ns"]
				if !w.Rep.secrets.VerifWatching() {
					// the start-up step did not register the controller with a manager: in a deployment no reconcile
					// request would ever reach it, so the simulator delivers none
					w.probe("reconcile-not-delivered:controller-not-registered")
					return
				}
				task := w.Sim.Cur()
				w.Sim.Yield("reconcile")
				w.Sim.SetCur(task)
				if op.Args["fail"] != "" {
					w.k8sFailNext = 1
				}
				var err error
				for attempt := 0; attempt < 4; attempt++ {
					// the manager re-queues a request whose reconcile returned an error
					w.k8sInReconcile = true
					_, err = w.Rep.secrets.Reconcile(ctx, ctrl.Request{NamespacedName: types.NamespacedName{Namespace: ns, Name: name}})
					w.k8sInReconcile = false
					if err == nil {
						break
					}
					w.probe("reconciles-requeued-after-an-error")
				}
				w.countFault("k8s-reconcile-delivered")
				w.logf("reconcile %s/%s -> %v", ns, name, err)
				if err == nil && ns == "default" {
					// reference: last non-empty client-secret value visible at a completed reconcile of that name
					sec := &corev1.Secret{}
					if w.K8s.Get(ctx, types.NamespacedName{Namespace: ns, Name: name}, sec) == nil && sec.DeletionTimestamp.IsZero() && len(sec.Data["client-secret"]) > 0 {
						if old, ok := w.k8sRef[name]; ok && old != string(sec.Data["client-secret"]) {
							w.probe("rotations:" + name)
						}
						w.k8sRef[name] = string(sec.Data["client-secret"])
						w.addSecret("client-secret", w.k8sRef[name])
					}
				}
				// direct observation: every referencing filter's configuration holds the reference value, no other filter changed
				for _, f := range w.Filters {
					got := f.Cfg.GetClientSecret()
					if f.Spec.SecretRef == "" {
						if got != f.Spec.ClientSecret {
							w.violate("C19", "inline-secret-overwritten", fmt.Sprintf("after reconcile %s/%s filter %s (inline secret) holds another secret", ns, name, f.Spec.Chain))
						}
						continue
					}
					if want, ok := w.k8sRef[f.Spec.SecretRef]; ok && got != want {
						w.violate("C19", "filter-does-not-hold-current-secret", fmt.Sprintf("after reconcile %s/%s filter %s (ref %s) holds %q, the Secret's current value is %q", ns, name, f.Spec.Chain, f.Spec.SecretRef, got, want))
					} else if !ok && got != "" {
						w.violate("C19", "secret-appeared-without-reconcile", fmt.Sprintf("filter %s holds %q although no valid %s was ever reconciled", f.Spec.Chain, got, f.Spec.SecretRef))
					}
				}
			case "logout-all":
				for b := 0; b < 2; b++ {
					for fi := range w.Filters {
						if w.Filters[fi].Spec.Logout != nil {
							a.Exec(&Op{Kind: "logout", B: b, F: fi})
						}
					}
				}
			default:
				a.Exec(op)
			}
		}
		for i := range p.Ops {
			exec(a, &p.Ops[i])
		}
		w.SimSecs = time.Since(w.start).Seconds()
	})
	if infra != "" {
		return &Result{Infra: infra}
	}
	res := w.result().only("C19")
	res.SimSecs = w.SimSecs
	rot := 0
	for k := range w.Probes {
		if strings.HasPrefix(k, "rotations:") {
			rot++
		}
	}
	res.Nontrivial = p.Mode == "cross-namespace" || w.Probes["token-requests-after-reconcile"] > 0
	if rot > 0 {
		res.Probes["runs-with-rotation"]++
	}
	res.Summary = fmt.Sprintf("mode=%s filters=%d", p.Mode, len(p.Spec.Filters))
	return res
}

func c19Secret(w *World, op *Op) {
	ctx := context.Background()
	name, ns, val := op.Args["name"], op.Args["ns"], op.Args["value"]
	key := types.NamespacedName{Namespace: ns, Name: name}
	cur := &corev1.Secret{}
	exists := w.K8s.Get(ctx, key, cur) == nil
	if cur.Data == nil {
		cur.Data = map[string][]byte{}
	}
	w.countFault("k8s-event:" + op.S)
	w.logf("secret %s/%s %s", ns, name, op.S)
	mk := func(data map[string][]byte) *corev1.Secret {
		s := &corev1.Secret{ObjectMeta: metav1.ObjectMeta{Namespace: ns, Name: name}, Data: data}
		if op.Args["immutable"] != "" {
			t := true
			s.Immutable = &t
			w.countFault("k8s-secret-immutable")
		}
		return s
	}
	switch op.S {
	case "set", "replace":
		if exists && !cur.DeletionTimestamp.IsZero() {
			return
		}
		if exists && (op.S == "replace" || cur.Immutable != nil && *cur.Immutable) {
			// an immutable Secret is rotated by deleting it and creating it again under the same name; both events
			// may be coalesced into one reconcile request
			_ = w.K8s.Delete(ctx, cur)
			_ = w.K8s.Create(ctx, mk(map[string][]byte{"client-secret": []byte(val), "other": []byte("y")}))
			w.countFault("k8s-secret-deleted-and-recreated")
			return
		}
		if exists {
			if cur.Data == nil {
				cur.Data = map[string][]byte{}
			}
			cur.Data["client-secret"] = []byte(val)
			_ = w.K8s.Update(ctx, cur)
		} else {
			_ = w.K8s.Create(ctx, mk(map[string][]byte{"client-secret": []byte(val), "other": []byte("x")}))
		}
	case "delete":
		if exists {
			cur.Finalizers = nil
			_ = w.K8s.Update(ctx, cur)
			_ = w.K8s.Delete(ctx, cur)
		}
	case "deleting":
		// deletion requested, a finalizer keeps the object around with a deletion timestamp
		if !exists {
			s := mk(map[string][]byte{"client-secret": []byte(val)})
			s.Finalizers = []string{"kubernetes"}
			_ = w.K8s.Create(ctx, s)
			_ = w.K8s.Delete(ctx, s)
		} else if cur.DeletionTimestamp.IsZero() {
			cur.Finalizers = []string{"kubernetes"}
			cur.Data["client-secret"] = []byte(val) // value changed while being deleted: must be ignored
			_ = w.K8s.Update(ctx, cur)
			_ = w.K8s.Delete(ctx, cur)
		}
	case "remove-key":
		if exists && cur.DeletionTimestamp.IsZero() {
			delete(cur.Data, "client-secret")
			_ = w.K8s.Update(ctx, cur)
		} else if !exists {
			_ = w.K8s.Create(ctx, mk(map[string][]byte{"other": []byte("x")}))
		}
	case "empty":
		if exists && cur.DeletionTimestamp.IsZero() {
			cur.Data["client-secret"] = []byte{}
			_ = w.K8s.Update(ctx, cur)
		} else if !exists {
			_ = w.K8s.Create(ctx, mk(map[string][]byte{"client-secret": {}}))
		}
	}
}
