//go:build verif

package verifsim

import (
	"context"
	"crypto/tls"
	"crypto/x509"
	"fmt"
	"io"
	"net/http"
	"os"
	"path/filepath"
	"regexp"
	"strings"
	"time"

	"google.golang.org/protobuf/proto"
	"google.golang.org/protobuf/types/known/durationpb"

	oidcv1 "github.com/istio-ecosystem/authservice/config/gen/go/v1/oidc"
	"github.com/istio-ecosystem/authservice/internal"
	inthttp "github.com/istio-ecosystem/authservice/internal/http"
)

// C20 — IdP TLS trust follows the configuration, including CA rotation. Real TLS handshakes (over
// in-memory connections) by clients built with the real NewHTTPClient from the real TLS pool and
// file watcher on the fake clock, against servers whose certificates chain to CA1, CA2 or an
// unknown CA. The expectation is computed independently with crypto/x509.

func init() {
	register(&PropDef{ID: "C20", Gen: genC20, Run: runC20})
}

func genC20(r *Rng, tier string, idx int) *Plan {
	p := &Plan{SchedSeed: r.U64()}
	if idx%7 == 4 {
		// two configurations that differ ONLY in the refresh interval of the same CA file
		p.Mode = "two-intervals"
		p.Spec = genSpec(r, genOpts{Filters: 1, NoDiscovery: true, NoFetch: true, ForceStore: "memory"})
		p.Spec.IdPs[0].Scheme = "https"
		p.Spec.Filters[0].CAFile = "ca.pem"
		p.Ops = []Op{{ID: 1, Kind: "intervals", D: []int{0, 0, 1, 60}[r.Intn(4)], F: []int{1, 60, 600}[r.Intn(3)]}, {ID: 2, Kind: "order", D: r.Intn(2)}}
		return p
	}
	if idx%7 == 5 {
		p.Mode = "concurrent-first-load"
		p.Policy = r.Intn(2)
		p.Spec = genSpec(r, genOpts{Filters: 1, NoDiscovery: true, NoFetch: true, ForceStore: "memory"})
		p.Spec.IdPs[0].Scheme = "https"
		p.Spec.Filters[0].CAFile = "ca.pem"
		p.Spec.Filters[0].CARefresh = []string{"1s", "60s", "600s"}[r.Intn(3)]
		p.Ops = []Op{{ID: 1, Kind: "loaders", D: r.Range(2, 4)}}
		return p
	}
	if idx%7 == 6 {
		p.Mode = "watcher-superseded"
		p.Ops = []Op{{ID: 1, Kind: "interval", D: []int{1, 5, 60}[r.Intn(3)]}, {ID: 2, Kind: "rounds", D: r.Range(2, 6)}}
		return p
	}
	p.Mode = "trust"
	p.Spec = genSpec(r, genOpts{Filters: 1, NoDiscovery: true, NoFetch: true, ForceStore: "memory"})
	is := &p.Spec.IdPs[0]
	is.Scheme = "https"
	is.ServerCA = r.Intn(3)
	is.Knobs.Alg = "ES256"
	f := &p.Spec.Filters[0]
	interval := []int{0, 1, 5, 60, 600, 3600}[r.Intn(6)]
	switch r.Intn(5) {
	case 0:
		f.CAInline = fmt.Sprint(r.Intn(2)) // placeholder: index of the CA, expanded at run time
	case 1, 2, 3:
		f.CAFile = "ca.pem"
		if interval > 0 {
			f.CARefresh = fmt.Sprintf("%ds", interval)
		}
	case 4:
	}
	switch r.Intn(6) {
	case 0:
		f.SkipVerify = true
	case 1:
		f.SkipVerify = "true"
	case 2:
		f.SkipVerify = false
	case 3:
		f.SkipVerify = "false"
	}
	id := 0
	nid := func() int { id++; return id }
	if f.CAFile != "" && r.Chance(0.35) {
		// the CA file is reached through symbolic links and rotated by re-pointing one (Kubernetes volume layout)
		p.Ops = append(p.Ops, Op{ID: nid(), Kind: "layout", S: "symlinks"})
	}
	p.Ops = append(p.Ops, Op{ID: nid(), Kind: "cafile", S: r.Pick([]string{"ca0", "ca0", "ca1", "both"})})
	if f.CAFile != "" && interval > 0 && interval <= 60 && r.Chance(0.3) {
		// the watched file is unreadable for several polls in a row (secret volume re-mounted), comes back, and is
		// rotated afterwards: the rotation must be followed at the configured interval, as before the outage
		k := r.Range(4, 8)
		p.Ops = append(p.Ops, Op{ID: nid(), Kind: "probe"}, Op{ID: nid(), Kind: "cafile", S: "delete"}, Op{ID: nid(), Kind: "adv", D: k*interval + 1},
			Op{ID: nid(), Kind: "cafile", S: "ca0"}, Op{ID: nid(), Kind: "adv", D: interval + 1}, Op{ID: nid(), Kind: "probe"},
			Op{ID: nid(), Kind: "cafile", S: r.Pick([]string{"ca1", "both", "ca1"})}, Op{ID: nid(), Kind: "adv", D: interval + 1}, Op{ID: nid(), Kind: "probe"},
			Op{ID: nid(), Kind: "servercert", D: 1}, Op{ID: nid(), Kind: "probe"}, Op{ID: nid(), Kind: "servercert", D: 0}, Op{ID: nid(), Kind: "probe"})
	}
	n := r.Range(4, 18)
	for i := 0; i < n; i++ {
		switch r.Intn(10) {
		case 0, 1:
			p.Ops = append(p.Ops, Op{ID: nid(), Kind: "cafile", S: r.Pick([]string{"ca0", "ca1", "both", "torn", "delete", "garbage", "empty", "ca2"})})
		case 2:
			p.Ops = append(p.Ops, Op{ID: nid(), Kind: "servercert", D: r.Intn(3)})
		case 3, 4:
			d := 1
			if interval > 0 {
				d = []int{interval - 1, interval + 1, interval, interval / 2, 2*interval + 1, 1}[r.Intn(6)]
			} else {
				d = r.Range(1, 4000)
			}
			if d < 1 {
				d = 1
			}
			p.Ops = append(p.Ops, Op{ID: nid(), Kind: "adv", D: d})
		case 5, 6, 7:
			p.Ops = append(p.Ops, Op{ID: nid(), Kind: "probe"})
		case 8:
			p.Ops = append(p.Ops, Op{ID: nid(), Kind: "login-probe", Path: genTarget(r)})
		case 9:
			p.Ops = append(p.Ops, Op{ID: nid(), Kind: "same-config"})
		}
	}
	p.Ops = append(p.Ops, Op{ID: nid(), Kind: "probe"})
	return p
}

var reRandomState = regexp.MustCompile(`state=[A-Za-z0-9]+`)

type caEvent struct {
	at      time.Time
	content string
	missing bool
}

func caContent(kind string) (string, bool) {
	switch kind {
	case "ca0":
		return pki.CAs[0].PEM, false
	case "ca1":
		return pki.CAs[1].PEM, false
	case "ca2":
		return pki.CAs[2].PEM, false
	case "both":
		return pki.CAs[0].PEM + pki.CAs[1].PEM, false
	case "torn":
		return pki.CAs[1].PEM[:len(pki.CAs[1].PEM)/2], false
	case "garbage":
		return "-----BEGIN CERTIFICATE-----\nnot base64 at all\n-----END CERTIFICATE-----\n", false
	case "empty":
		return "", false
	case "delete":
		return "", true
	}
	return "", true
}

func rootsOf(content string) *x509.CertPool {
	pool := x509.NewCertPool()
	if !pool.AppendCertsFromPEM([]byte(content)) {
		return nil
	}
	return pool
}

func runC20(p *Plan) *Result {
	if p.Mode == "watcher-superseded" {
		return runC20Watcher(p)
	}
	if p.Mode == "concurrent-first-load" {
		return runC20Concurrent(p)
	}
	if p.Mode == "two-intervals" {
		return runC20TwoIntervals(p)
	}
	f0 := &p.Spec.Filters[0]
	spec := *p.Spec
	spec.Filters = append([]FilterSpec(nil), p.Spec.Filters...)
	f := &spec.Filters[0]
	caPath := ""
	symlinks := false
	volDir := ""
	gen := 0
	if f0.CAFile != "" {
		caPath = filepath.Join(penv.dir, fmt.Sprintf("ca-%d.pem", os.Getpid()))
		for _, op := range p.Ops {
			if op.Kind == "layout" && op.S == "symlinks" {
				symlinks = true
			}
		}
		if symlinks {
			// <vol>/ca.pem -> ..data/ca.pem ; <vol>/..data -> ..gen-N ; <vol>/..gen-N/ca.pem is the real file
			volDir = filepath.Join(penv.dir, fmt.Sprintf("vol-%d", os.Getpid()))
			_ = os.RemoveAll(volDir)
			_ = os.MkdirAll(volDir, 0o700)
			_ = os.Symlink(filepath.Join("..data", "ca.pem"), filepath.Join(volDir, "ca.pem"))
			caPath = filepath.Join(volDir, "ca.pem")
		}
		f.CAFile = caPath
		if !symlinks {
			_ = os.Remove(caPath)
		}
	}
	writeCA := func(content string, missing bool) {
		if !symlinks {
			if missing {
				_ = os.Remove(caPath)
				return
			}
			tmp := caPath + ".tmp"
			_ = os.WriteFile(tmp, []byte(content), 0o600)
			_ = os.Rename(tmp, caPath)
			return
		}
		gen++
		dir := fmt.Sprintf("..gen-%d", gen)
		_ = os.MkdirAll(filepath.Join(volDir, dir), 0o700)
		if !missing {
			_ = os.WriteFile(filepath.Join(volDir, dir, "ca.pem"), []byte(content), 0o600)
		}
		tmp := filepath.Join(volDir, "..data_tmp")
		_ = os.Remove(tmp)
		_ = os.Symlink(dir, tmp)
		_ = os.Rename(tmp, filepath.Join(volDir, "..data"))
		if gen > 1 {
			_ = os.RemoveAll(filepath.Join(volDir, fmt.Sprintf("..gen-%d", gen-1)))
		}
	}
	inlineCA := -1
	if f0.CAInline != "" {
		fmt.Sscan(f0.CAInline, &inlineCA)
		f.CAInline = pki.CAs[inlineCA].PEM
	}
	var interval time.Duration
	if f.CARefresh != "" {
		interval, _ = time.ParseDuration(f.CARefresh)
	}
	skip := f.SkipVerify == true || f.SkipVerify == "true"

	w := NewWorld(&spec, p.SchedSeed, 0, nil)
	installHooks(w.Sim) // scheduler off: yields return at once, but a lock that is never released is detected
	defer removeHooks()
	w.StartNet(nil)
	defer w.Close()
	idp := w.IdPs[0]
	host := strings.Split(idp.Host, ":")[0]
	var events []caEvent
	var watchStart time.Time
	loaded, loadFailed := false, false
	nAtLoad := 0
	offGrid := false
	booted := false
	viol := func(sig, detail string) { w.violate("C20", sig, detail) }

	// effective CA content at instant t per the documented behaviour; "either" when t is at a poll
	// instant or the answer depends on sub-second ordering
	fileAt := func(t time.Time) (string, bool) {
		c, missing := "", true
		for _, e := range events {
			if !e.at.After(t) {
				c, missing = e.content, e.missing
			}
		}
		return c, missing
	}
	// effectiveWith computes the CA content in effect at t. Two events at the same fake instant (a write and a
	// poll, a poll and a probe) have no defined order, so it is computed twice: optimistic (the poll at an
	// instant sees a write made at that instant; a poll at the probe's own instant has already happened) and
	// pessimistic (neither). Where the two differ the probe is not judged.
	effectiveWith := func(t time.Time, optimistic bool) string {
		cur := ""
		for _, e := range events[:nAtLoad] {
			cur = e.content
		}
		last := cur
		if interval <= 0 {
			return cur
		}
		for k := 1; ; k++ {
			pt := watchStart.Add(time.Duration(k) * interval)
			if pt.After(t) || pt.Equal(t) && !optimistic {
				break
			}
			data, missing := "", true
			for _, e := range events {
				if e.at.Before(pt) || e.at.Equal(pt) && optimistic {
					data, missing = e.content, e.missing
				}
			}
			if missing {
				continue
			}
			if data != last {
				last = data
				if rootsOf(data) != nil {
					cur = data
				}
			}
		}
		return cur
	}
	effective := func(t time.Time) (content string, ambiguous bool) {
		a, b := effectiveWith(t, true), effectiveWith(t, false)
		return a, a != b
	}
	// pending = a rewrite happened and the next poll has not occurred yet: old or new content is acceptable
	expect := func(t time.Time) (want string, why string) {
		_, leaf := pki.leaf(idp.ServerCA, host)
		verify := func(content string) bool {
			roots := rootsOf(content)
			if roots == nil {
				return false
			}
			_, err := leaf.Verify(x509.VerifyOptions{Roots: roots, DNSName: host, CurrentTime: t})
			return err == nil
		}
		switch {
		case inlineCA >= 0:
			if verify(pki.CAs[inlineCA].PEM) {
				return "ok", "server chains to the inline CA"
			}
			return "fail", "server does not chain to the inline CA"
		case caPath != "":
			if loadFailed {
				return "fail", "the CA file could not be loaded when the configuration was first used"
			}
			eff, amb := effective(t)
			now, _ := fileAt(t)
			a, b := verify(eff), verify(now)
			if amb {
				return "either", "probe at a poll instant"
			}
			if a != b {
				// between a rewrite and the next poll: the new content may not be trusted yet / the old still is
				// (only when a poll is still outstanding for that rewrite)
				if interval > 0 && rootsOf(now) != nil {
					return "pending:" + map[bool]string{true: "ok", false: "fail"}[a], "rewrite not yet polled"
				}
			}
			if a {
				return "ok", "server chains to the CA file content in effect"
			}
			return "fail", "server does not chain to the CA file content in effect"
		case skip:
			return "ok", "verification skipped as requested, no CA configured"
		default:
			return "fail", "no CA configured and verification not skipped: system roots only"
		}
	}
	boot := func() bool {
		if booted {
			return w.Rep.BootErr == nil
		}
		booted = true
		w.Boot()
		return w.Rep.BootErr == nil
	}
	// The configuration is loaded (and the watcher started) by the first use that finds a loadable CA file;
	// a use that fails to load leaves nothing behind and the next use tries again.
	firstUse := func() {
		if loaded {
			return
		}
		loadFailed = false
		if caPath != "" {
			missing, c := true, ""
			if len(events) > 0 {
				c, missing = events[len(events)-1].content, events[len(events)-1].missing
			}
			// an empty file loads (no CA is added: system roots only); a non-empty unparsable one does not
			if missing || c != "" && rootsOf(c) == nil {
				loadFailed = true
				return
			}
		}
		loaded = true
		watchStart = time.Now()
		nAtLoad = len(events)
		offGrid = true
	}
	var longLived *http.Client // built at the first successful load and kept, like the JWKS fetcher's client
	var firstConf *tls.Config
	probe := func(n int) {
		if !boot() {
			return
		}
		defer func() {
			if r := recover(); r != nil {
				if strings.Contains(fmt.Sprint(r), "simsync") {
					viol("tls-pool-lock-never-released", fmt.Sprintf("probe #%d: LoadTLSConfig could not take the pool lock within the step budget: %v", n, r))
					return
				}
				panic(r)
			}
		}()
		firstUse()
		t := time.Now()
		want, why := expect(t)
		cfg := w.Filters[0].Cfg
		client, err := inthttp.NewHTTPClient(cfg, w.Rep.tlsPool, nil)
		if err == nil && loaded {
			if tr, ok := client.Transport.(*http.Transport); ok {
				if firstConf == nil {
					firstConf = tr.TLSClientConfig
				} else if tr.TLSClientConfig != firstConf && (f.CAFile != "" || f.CAInline != "" || f.SkipVerify != nil) {
					viol("identical-settings-do-not-share-one-configuration:over-time", fmt.Sprintf("probe #%d: the pool handed out a different *tls.Config than at the first use of the same settings", n))
				}
			}
			if longLived == nil {
				longLived = client
			} else if n%2 == 0 {
				client = longLived // probe through the long-lived client: it must follow rotation too
				w.probe("long-lived-client-probes")
			}
		}
		got := "fail"
		detail := ""
		if err != nil {
			detail = "client construction: " + err.Error()
		} else {
			resp, err := client.Get(idp.JWKSURL())
			if err == nil {
				_, _ = io.Copy(io.Discard, resp.Body)
				_ = resp.Body.Close()
				got = "ok"
			} else {
				detail = err.Error()
			}
			client.CloseIdleConnections()
		}
		if client == longLived && longLived != nil {
			detail += " (long-lived client)"
		}
		w.logf("t=%s probe#%d serverCA=%d -> %s (expected %s: %s) %s", time.Since(w.start).Round(time.Millisecond), n, idp.ServerCA, got, want, why, detail)
		w.probe("handshakes")
		if strings.HasPrefix(want, "pending") {
			w.probe("handshakes-between-rewrite-and-poll")
			return
		}
		if want == "either" {
			return
		}
		w.probe("handshakes-judged:" + want)
		if len(events) > 1 && interval > 0 && caPath != "" {
			w.probe("handshakes-after-a-rotation")
		}
		if got != want {
			sig := "untrusted-server-accepted"
			if want == "ok" {
				sig = "trusted-server-rejected"
			}
			mode := "no-ca"
			if inlineCA >= 0 {
				mode = "inline-ca"
			} else if caPath != "" {
				mode = "ca-file"
				if len(events) > 1 {
					mode = "ca-file-after-rewrite"
				}
			}
			if skip {
				mode += "+skip-verify"
			}
			viol(sig+":"+mode, fmt.Sprintf("probe #%d at t=%s: handshake with a server certificate issued by CA%d %s, expected %s (%s); refresh interval %v; %s", n, time.Since(w.start).Round(time.Millisecond), idp.ServerCA, map[string]string{"ok": "succeeded", "fail": "failed"}[got], want, why, interval, detail))
		}
	}
	a := w.NewAgents()
	for i := range p.Ops {
		op := &p.Ops[i]
		if offGrid {
			// The watcher polls at (first use + k x interval). All later steps advance by whole seconds, so
			// stepping half a second off that grid once keeps every later write and probe strictly between
			// two polls: two events at one fake instant have no defined order and could not be judged.
			offGrid = false
			w.Advance(500 * time.Millisecond)
		}
		switch op.Kind {
		case "cafile":
			if caPath == "" {
				continue
			}
			c, missing := caContent(op.S)
			writeCA(c, missing)
			if symlinks {
				w.probe("ca-rotations-by-symlink-swap")
			}
			events = append(events, caEvent{time.Now(), c, missing})
			w.countFault("ca-file:" + op.S)
			w.logf("t=%s CA file <- %s", time.Since(w.start).Round(time.Millisecond), op.S)
		case "servercert":
			idp.ServerCA = op.D
			w.logf("server certificate now issued by CA%d", op.D)
		case "adv":
			w.Advance(time.Duration(op.D) * time.Second)
		case "probe":
			probe(op.ID)
		case "same-config":
			if !boot() {
				continue
			}
			firstUse()
			cfg := w.Filters[0].Cfg
			var c1, c2 *tls.Config
			var e1, e2 error
			func() {
				defer func() {
					if r := recover(); r != nil {
						viol("tls-pool-lock-never-released", fmt.Sprintf("LoadTLSConfig could not take the pool lock within the step budget: %v", r))
						e1 = fmt.Errorf("%v", r)
					}
				}()
				c1, e1 = w.Rep.tlsPool.LoadTLSConfig(cfg)
				c2, e2 = w.Rep.tlsPool.LoadTLSConfig(proto.Clone(cfg).(*oidcv1.OIDCConfig))
			}()
			if e1 == nil && e2 == nil && c1 != c2 {
				viol("identical-settings-do-not-share-one-configuration", "LoadTLSConfig returned different *tls.Config for identical settings")
			}
			w.probe("same-config-checks")
		case "login-probe":
			if !boot() {
				continue
			}
			firstUse()
			t := time.Now()
			want, why := expect(t)
			before := len(idp.tokenReqsSnapshot())
			res := a.Nav("login-probe", op.ID, 0, op.Path, 4)
			reached := len(idp.tokenReqsSnapshot()) > before
			w.probe("login-handshakes")
			if want == "ok" && !reached || want == "fail" && reached {
				viol("login-handshake-differs:"+want, fmt.Sprintf("login at t=%s: token endpoint reached=%v, expected handshake %s (%s); final verdict %s", time.Since(w.start).Round(time.Millisecond), reached, want, why, res.Final.Class))
			}
		}
	}
	if booted && w.Rep.BootErr != nil {
		r := w.result()
		r.Infra = "generated configuration was rejected: " + w.Rep.BootErr.Error()
		return r
	}
	for _, bp := range takeBgPanics() {
		if strings.Contains(bp, "simsync") {
			viol("tls-pool-lock-never-released", "a CA reload callback could not take the pool lock within the step budget: "+bp)
		} else {
			viol("panic-in-background-goroutine", bp)
		}
	}
	res := w.result().only("C20")
	res.Nontrivial = w.Probes["handshakes"] > 0
	res.TraceHash = hash64(reRandomState.ReplaceAllString(strings.Join(w.evlog, "\n"), "state=*")) // (the service draws the state from crypto/rand)
	res.Summary = fmt.Sprintf("inline=%d file=%v interval=%v skip=%v", inlineCA, caPath != "", interval, f.SkipVerify)
	return res
}

// ---- component level: a superseded file watcher stops -------------------------------------------------------

type countingReader struct {
	id    string
	reads int
	data  *string
}

func (c *countingReader) ID() string { return c.id }
func (c *countingReader) Read() ([]byte, error) {
	c.reads++
	return []byte(*c.data), nil
}

func runC20Watcher(p *Plan) *Result {
	res := &Result{Probes: map[string]int{}, Faults: map[string]int{}}
	interval, rounds := time.Second, 3
	for _, op := range p.Ops {
		if op.Kind == "interval" {
			interval = time.Duration(op.D) * time.Second
		}
		if op.Kind == "rounds" {
			rounds = op.D
		}
	}
	ctx, cancel := context.WithCancel(context.Background())
	defer cancel()
	fw := internal.NewFileWatcher(ctx)
	content := "v0"
	var readers []*countingReader
	callbacks := make([]int, rounds)
	for i := 0; i < rounds; i++ {
		i := i
		r := &countingReader{id: "/same/file", data: &content}
		readers = append(readers, r)
		if _, err := fw.WatchFile(r, interval, func([]byte) { callbacks[i]++ }); err != nil {
			res.Infra = err.Error()
			return res
		}
		time.Sleep(interval/2 + time.Millisecond)
	}
	// let every live watcher poll a few times, with content changes
	base := make([]int, rounds)
	for i, r := range readers {
		base[i] = r.reads
	}
	cbBase := append([]int(nil), callbacks...)
	for k := 0; k < 4; k++ {
		content = fmt.Sprintf("v%d", k+1)
		time.Sleep(interval + time.Millisecond)
	}
	time.Sleep(time.Millisecond)
	for i := 0; i < rounds-1; i++ {
		// one read may have been in flight when the watcher was superseded
		if readers[i].reads > base[i]+1 || callbacks[i] > cbBase[i]+1 {
			res.Viol = append(res.Viol, Violation{"C20", "superseded-watcher-keeps-running", fmt.Sprintf("watcher %d of %d for the same file performed %d further reads and %d further callbacks after being superseded", i, rounds, readers[i].reads-base[i], callbacks[i]-cbBase[i])})
			break
		}
	}
	last := rounds - 1
	if readers[last].reads-base[last] < 3 || callbacks[last]-cbBase[last] < 3 {
		res.Viol = append(res.Viol, Violation{"C20", "current-watcher-does-not-follow-the-file", fmt.Sprintf("the current watcher read %d times and called back %d times over 4 intervals with 4 content changes", readers[last].reads-base[last], callbacks[last]-cbBase[last])})
	}
	cancel()
	time.Sleep(time.Millisecond)
	res.Probes["watchers-superseded"] = rounds - 1
	res.Nontrivial = true
	res.TraceHash = hash64(fmt.Sprintf("w/%v/%d", interval, rounds))
	res.SchedHash = res.TraceHash
	res.SimSecs = float64(rounds)*interval.Seconds()/2 + 4*interval.Seconds()
	return res
}

// ---- concurrent first loads of identical settings (instrumented tls.go / file.go) ---------------------------

func runC20Concurrent(p *Plan) *Result {
	spec := *p.Spec
	spec.Filters = append([]FilterSpec(nil), p.Spec.Filters...)
	caPath := filepath.Join(penv.dir, fmt.Sprintf("cca-%d.pem", os.Getpid()))
	spec.Filters[0].CAFile = caPath
	_ = os.WriteFile(caPath, []byte(pki.CAs[0].PEM), 0o600)
	interval, _ := time.ParseDuration(spec.Filters[0].CARefresh)
	w := NewWorld(&spec, p.SchedSeed, p.Policy, nil)
	installHooks(w.Sim)
	defer removeHooks()
	w.StartNet(nil)
	defer w.Close()
	w.Boot()
	if w.Rep.BootErr != nil {
		r := w.result()
		r.Infra = "generated configuration was rejected: " + w.Rep.BootErr.Error()
		return r
	}
	idp := w.IdPs[0]
	n := 2
	if len(p.Ops) > 0 && p.Ops[0].D > 1 {
		n = p.Ops[0].D
	}
	cfg := w.Filters[0].Cfg
	clients := make([]*http.Client, n)
	confs := make([]*tls.Config, n)
	done := make(chan int, n)
	main := w.Sim.Cur()
	w.Sim.On = true
	for i := 0; i < n; i++ {
		i := i
		t := w.Sim.NewTask(10+i, "loader")
		w.Sim.Go(t, func() {
			defer func() { done <- i }()
			if i%2 == 0 {
				// what every check does: a fresh client from the pool
				c, err := inthttp.NewHTTPClient(cfg, w.Rep.tlsPool, nil)
				if err == nil {
					clients[i] = c
					if tr, ok := c.Transport.(*http.Transport); ok {
						confs[i] = tr.TLSClientConfig
					}
				}
			} else {
				confs[i], _ = w.Rep.tlsPool.LoadTLSConfig(cfg)
			}
		})
	}
	for i := 0; i < n; i++ {
		<-done
	}
	w.Sim.On = false
	w.Sim.SetCur(main)
	w.probe("concurrent-first-loads")
	distinct := map[*tls.Config]bool{}
	for _, c := range confs {
		if c != nil {
			distinct[c] = true
		}
	}
	if len(distinct) > 1 {
		w.violate("C20", "identical-settings-do-not-share-one-configuration:concurrent-first-load", fmt.Sprintf("%d concurrent first loads of identical TLS settings were handed %d different configurations", n, len(distinct)))
	}
	// rotation: every configuration handed out must follow the CA file
	w.Advance(500 * time.Millisecond)
	_ = os.WriteFile(caPath+".tmp", []byte(pki.CAs[1].PEM), 0o600)
	_ = os.Rename(caPath+".tmp", caPath)
	idp.ServerCA = 1
	w.Advance(interval + time.Second)
	for i, c := range confs {
		if c == nil {
			continue
		}
		tr := &http.Transport{DialContext: simDial, TLSClientConfig: c}
		resp, err := (&http.Client{Transport: tr}).Get(idp.JWKSURL())
		if err == nil {
			_, _ = io.Copy(io.Discard, resp.Body)
			_ = resp.Body.Close()
		}
		tr.CloseIdleConnections()
		w.probe("handshakes-after-a-rotation")
		if err != nil {
			w.violate("C20", "configuration-handed-out-earlier-does-not-follow-the-ca-file", fmt.Sprintf("configuration #%d (of %d distinct) still rejects a server chaining to the NEW CA content %v after the rewrite (refresh interval %v): %v", i, len(distinct), interval+time.Second, interval, err))
			break
		}
	}
	res := w.result().only("C20")
	res.Nontrivial = true
	res.TraceHash = hash64(w.Sim.TraceString())
	res.Summary = fmt.Sprintf("mode=concurrent-first-load loaders=%d interval=%v", n, interval)
	return res
}

// ---- two configurations sharing one CA file with different refresh intervals -------------------------------

func runC20TwoIntervals(p *Plan) *Result {
	spec := *p.Spec
	spec.Filters = append([]FilterSpec(nil), p.Spec.Filters...)
	caPath := filepath.Join(penv.dir, fmt.Sprintf("tca-%d.pem", os.Getpid()))
	spec.Filters[0].CAFile = caPath
	_ = os.WriteFile(caPath, []byte(pki.CAs[0].PEM), 0o600)
	ia, ib, order := 0, 60, 0
	for _, op := range p.Ops {
		if op.Kind == "intervals" {
			ia, ib = op.D, op.F
		}
		if op.Kind == "order" {
			order = op.D
		}
	}
	if ia == ib {
		ib = ia + 59
	}
	w := NewWorld(&spec, p.SchedSeed, 0, nil)
	installHooks(w.Sim)
	defer removeHooks()
	w.StartNet(nil)
	defer w.Close()
	w.Boot()
	if w.Rep.BootErr != nil {
		r := w.result()
		r.Infra = "generated configuration was rejected: " + w.Rep.BootErr.Error()
		return r
	}
	idp := w.IdPs[0]
	mk := func(secs int) *oidcv1.OIDCConfig {
		c := proto.Clone(w.Filters[0].Cfg).(*oidcv1.OIDCConfig)
		c.TrustedCertificateAuthorityRefreshInterval = nil
		if secs > 0 {
			c.TrustedCertificateAuthorityRefreshInterval = durationpb.New(time.Duration(secs) * time.Second)
		}
		return c
	}
	cfgs := []*oidcv1.OIDCConfig{mk(ia), mk(ib)}
	ivs := []int{ia, ib}
	if order == 1 {
		cfgs[0], cfgs[1] = cfgs[1], cfgs[0]
		ivs[0], ivs[1] = ivs[1], ivs[0]
	}
	handshake := func(c *oidcv1.OIDCConfig) error {
		client, err := inthttp.NewHTTPClient(c, w.Rep.tlsPool, nil)
		if err != nil {
			return err
		}
		defer client.CloseIdleConnections()
		resp, err := client.Get(idp.JWKSURL())
		if err == nil {
			_, _ = io.Copy(io.Discard, resp.Body)
			_ = resp.Body.Close()
		}
		return err
	}
	// both configurations are used while the file holds CA0 (server chains to CA0)
	for i, c := range cfgs {
		if err := handshake(c); err != nil {
			w.violate("C20", "trusted-server-rejected:ca-file", fmt.Sprintf("configuration with refresh interval %ds rejects a server chaining to the CA in the file: %v", ivs[i], err))
		}
	}
	w.Advance(500 * time.Millisecond)
	_ = os.WriteFile(caPath+".tmp", []byte(pki.CAs[1].PEM), 0o600)
	_ = os.Rename(caPath+".tmp", caPath)
	idp.ServerCA = 1
	maxIv := ivs[0]
	if ivs[1] > maxIv {
		maxIv = ivs[1]
	}
	w.Advance(time.Duration(maxIv)*time.Second + time.Second)
	for i, c := range cfgs {
		err := handshake(c)
		w.probe("handshakes-after-a-rotation")
		switch {
		case ivs[i] > 0 && err != nil:
			w.violate("C20", "rotation-not-followed:configuration-differs-only-in-refresh-interval", fmt.Sprintf("the configuration with refresh interval %ds (another one for the same CA file has %ds) still rejects the NEW CA %ds after the rewrite: %v", ivs[i], ivs[1-i], maxIv+1, err))
		case ivs[i] == 0 && err == nil:
			w.violate("C20", "unwatched-configuration-follows-the-file", fmt.Sprintf("the configuration without refresh interval trusts the rewritten CA file although it must keep what it loaded (the other configuration polls every %ds)", ivs[1-i]))
		}
	}
	w.probe("two-interval-runs")
	res := w.result().only("C20")
	res.Nontrivial = true
	res.TraceHash = hash64(fmt.Sprintf("2iv/%d/%d/%d", ia, ib, order))
	res.Summary = fmt.Sprintf("mode=two-intervals %ds/%ds order=%d", ia, ib, order)
	return res
}
