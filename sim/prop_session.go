//go:build verif

package verifsim

import (
	"fmt"
	"os"
	"strings"
)

// Session-world properties whose oracles are the always-on monitors (monitors.go); each has its
// own generator biased towards its quantifier: C04, C05, C11, C13, C14.

func init() {
	register(&PropDef{ID: "C04", Gen: genC04, Run: sessionRunner("C04", ntC04), NoBubble: true})
	register(&PropDef{ID: "C05", Gen: genC05, Run: sessionRunner("C05", ntC05), NoBubble: true})
	register(&PropDef{ID: "C11", Gen: genC11, Run: sessionRunner("C11", ntC11), NoBubble: true})
	register(&PropDef{ID: "C13", Gen: genC13, Run: sessionRunner("C13", ntC13), NoBubble: true})
	register(&PropDef{ID: "C14", Gen: genC14, Run: sessionRunner("C14", ntC14), NoBubble: true})
}

func sessionRunner(prop string, nontrivial func(*World) bool) func(*Plan) *Result {
	return func(p *Plan) *Result {
		w, infra := runSession(p, p.Faults)
		if infra != "" {
			return &Result{Infra: infra}
		}
		nt := nontrivial(w)
		res := w.result().only(prop)
		res.SimSecs = w.SimSecs
		res.Nontrivial = nt
		if p.Mode == "concurrent" {
			res.TraceHash = hash64(w.TraceSig() + w.Sim.TraceString())
		}
		res.Summary = fmt.Sprintf("mode=%s %s", p.Mode, describeSpec(p.Spec))
		return res
	}
}

// ---- C04 -------------------------------------------------------------------------------------------

func genC04(r *Rng, tier string, idx int) *Plan {
	p := &Plan{SchedSeed: r.U64(), Policy: r.Intn(2), Mode: "concurrent"}
	p.Spec = genSpec(r, genOpts{Filters: 1, AllowRedis: true, NoFetch: true})
	p.Spec.HandlerMode = r.Chance(0.25)
	p.Spec.IdPs[0].Knobs.LatencyUS = []int{0, 100, 1000}[r.Intn(3)]
	id := 0
	nid := func() int { id++; return id }
	nb := r.Range(2, 3)
	targets := []string{genTarget(r), genTarget(r), genTarget(r)}
	attacker := 3
	variants := []string{"", "", "", "reorder", "dup-state-forged-first", "dup-state-own-first", "dup-code", "case", "empty", "extra", "missing-code", "missing-state", "fragment"}
	codeSrc := func() string { return r.Pick([]string{"own", "of:0", "of:1", "of:2", "forged", "inject"}) }
	stateSrc := func() string {
		return r.Pick([]string{"own", "of:0", "of:1", "of:2", "forged", "near", "upper", "truncated", "extended"})
	}
	cookie := func() string {
		return r.Pick([]string{"own", "of:0", "of:1", "held", "none", "garbage", "foreign-first:3", "foreign-first:0", "name-variant:prefix-x"})
	}
	crafted := func(b int) Op {
		return Op{ID: nid(), Kind: "cb", B: b, S: cookie(), Args: map[string]string{"code": codeSrc(), "state": stateSrc(), "variant": r.Pick(variants)}}
	}
	// phase 1: every browser (and the attacker) starts a login, sequentially or concurrently
	var begins []Op
	for b := 0; b < nb; b++ {
		begins = append(begins, Op{ID: nid(), Kind: "begin", B: b, Path: targets[b]})
	}
	begins = append(begins, Op{ID: nid(), Kind: "begin", B: attacker, Path: targets[0]})
	if r.Bool() {
		p.Ops = append(p.Ops, Op{ID: nid(), Kind: "par", Par: begins})
	} else {
		p.Ops = append(p.Ops, begins...)
	}
	// phase 2: callbacks of all browsers interleaved with crafted callbacks
	var par []Op
	for b := 0; b < nb; b++ {
		par = append(par, Op{ID: nid(), Kind: "finish", B: b})
	}
	na := r.Range(1, 3)
	for i := 0; i < na; i++ {
		par = append(par, crafted(attacker))
	}
	if r.Chance(0.5) {
		par = append(par, crafted(r.Intn(nb))) // a victim's browser is made to deliver a crafted callback (CSRF)
	}
	for i := len(par) - 1; i > 0; i-- {
		j := r.Intn(i + 1)
		par[i], par[j] = par[j], par[i]
	}
	p.Ops = append(p.Ops, Op{ID: nid(), Kind: "par", Par: par})
	// phase 3: replays after completion, sequentially
	for b := 0; b < nb; b++ {
		if r.Chance(0.7) {
			p.Ops = append(p.Ops, Op{ID: nid(), Kind: "finish", B: b}) // replay own callback
		}
		if r.Chance(0.5) {
			p.Ops = append(p.Ops, Op{ID: nid(), Kind: "cb", B: attacker, S: r.Pick([]string{"own", "of:0", "of:1"}), Args: map[string]string{"code": fmt.Sprintf("of:%d", b), "state": fmt.Sprintf("of:%d", b)}})
		}
		p.Ops = append(p.Ops, Op{ID: nid(), Kind: "send", B: b, Path: targets[b], S: "own"})
	}
	p.Ops = append(p.Ops, Op{ID: nid(), Kind: "send", B: attacker, Path: targets[0], S: "own"})
	if idx%4 == 3 {
		// the store fails to save the tokens of a callback whose exchange succeeded; the callback is then
		// replayed: the login state must have been consumed by the successful exchange
		p.Mode = "store-fault-then-replay"
		p.Faults = append(p.Faults, Fault{Site: "store.SetTokenResponse", Nth: r.Range(1, nb), Kind: r.Pick([]string{"err-before", "err-after", "redis-torn:2", "redis-torn:4", "redis-torn:6", "redis-torn:7"})})
	}
	sprayReplicas(r, p, 0.4)
	return p
}

func ntC04(w *World) bool {
	return w.Probes["logins-completed"] >= 1 && w.Probes["crafted-callback-reached-state-lookup"] >= 1
}

// ---- C05 -------------------------------------------------------------------------------------------

func genC05(r *Rng, tier string, idx int) *Plan {
	p := &Plan{SchedSeed: r.U64(), Mode: "sequential"}
	p.Spec = genSpec(r, genOpts{Filters: 1, AllowRedis: true, Triggers: true, Logout: 1})
	f := &p.Spec.Filters[0]
	// cookie-name prefixes over RFC 6265 token characters
	f.CookiePrefix = r.Pick([]string{"", "a", "my-app", "A.b~c", "x_1", "p!#$%&'*+-.^_`|~q", "0", "-authservice-session-id-cookie",
		"__Secure-app", "__secure-x", "__host-app", "__HOST-A", "__Host-", "__Host-app"}) // (a prefix that looks like a cookie-name prefix is a token like any other)
	k := &p.Spec.IdPs[0].Knobs
	if k.Refresh == "none" && r.Bool() {
		k.Refresh = "static"
	}
	p.Ops = genHistory(r, p.Spec, r.Range(8, 40), true)
	// the scheme Envoy reports for a client's requests (TLS may be terminated in front of it)
	for b := 0; b < 3; b++ {
		if r.Chance(0.3) {
			p.Ops = append([]Op{{ID: 2000 + b, Kind: "client", B: b, Args: map[string]string{"scheme": r.Pick([]string{"http", "HTTP", "https", "Http"})}}}, p.Ops...)
		}
	}
	// make sure each class of presented id occurs: pending, authenticated, stale, attacker-chosen
	id := 1000
	t := genTarget(r)
	extra := []Op{
		{ID: id + 1, Kind: "begin", B: 0, Path: t}, {ID: id + 2, Kind: "send", B: 0, Path: t, S: "own"}, // pending id presented on a normal path
		{ID: id + 3, Kind: "nav", B: 1, Path: t}, {ID: id + 4, Kind: "adv", D: 4000}, {ID: id + 5, Kind: "idp", Args: map[string]string{"refresh_deny": "true"}},
		{ID: id + 6, Kind: "send", B: 1, Path: t, S: "own"}, // authenticated id whose tokens expired
		{ID: id + 7, Kind: "send", B: 1, Path: t, S: "stale"},
		{ID: id + 8, Kind: "send", B: 2, Path: r.Pick(attackPaths), S: "fixed:" + r.Str(64)},
		{ID: id + 9, Kind: "logout", B: 0},
	}
	at := r.Intn(len(p.Ops) + 1)
	p.Ops = append(p.Ops[:at], append(extra, p.Ops[at:]...)...)
	if idx%3 == 2 {
		// the provider cannot be reached / fails during a refresh: the redirect that follows must still destroy
		// the presented session
		for i := 0; i < 2; i++ {
			p.Faults = append(p.Faults, Fault{Site: "idp.token", Nth: r.Range(2, 6), Kind: r.Pick([]string{"reset-before", "500", "reset-after", "503"})})
		}
		p.Faults = append(p.Faults, Fault{Site: "net.dial", Nth: r.Range(3, 8), Kind: "refused"})
	}
	sprayReplicas(r, p, 0.4)
	return p
}

func ntC05(w *World) bool {
	n := 0
	for k := range w.Probes {
		if strings.HasPrefix(k, "redirect-presented:") && k != "redirect-presented:none" {
			n++
		}
	}
	return n >= 2
}

// ---- C11 -------------------------------------------------------------------------------------------

func genC11(r *Rng, tier string, idx int) *Plan {
	p := &Plan{SchedSeed: r.U64(), Mode: "sequential"}
	p.Spec = genSpec(r, genOpts{Filters: 1, AllowRedis: true})
	k := &p.Spec.IdPs[0].Knobs
	k.Refresh = []string{"static", "rotate", "rotate"}[r.Intn(3)]
	k.IDTokenTTL = []int{60, 300, 600}[r.Intn(3)]
	k.ExpiresIn = []int{60, 300, 600}[r.Intn(3)]
	k.RefreshNonce = r.Pick([]string{"omit", "omit", "echo", "empty"})
	if r.Chance(0.3) {
		// key sets fetched from the provider at a short configured interval; the key endpoint may send caching
		// headers that say otherwise (the configured interval is what counts)
		p.Spec.Filters[0].JWKSFetch = true
		p.Spec.Filters[0].JWKSInterval = 60
		k.JWKSCacheControl = r.Pick([]string{"", "max-age=86400", "public, max-age=604800", "no-cache"})
	}
	life := k.IDTokenTTL
	if k.ExpiresIn > life {
		life = k.ExpiresIn
	}
	id := 0
	nid := func() int { id++; return id }
	t := genTarget(r)
	p.Ops = append(p.Ops, Op{ID: nid(), Kind: "nav", Path: t})
	n := r.Range(3, 30)
	for i := 0; i < n; i++ {
		switch r.Intn(12) {
		case 0:
			p.Ops = append(p.Ops, Op{ID: nid(), Kind: "idp", Args: map[string]string{"refresh_omit_id": r.Pick([]string{"true", "false"})}})
		case 1:
			p.Ops = append(p.Ops, Op{ID: nid(), Kind: "idp", Args: map[string]string{"refresh_omit_access": r.Pick([]string{"true", "false"})}})
		case 2:
			p.Ops = append(p.Ops, Op{ID: nid(), Kind: "idp", Args: map[string]string{"refresh_omit_expires": r.Pick([]string{"true", "false"})}})
		case 3:
			p.Ops = append(p.Ops, Op{ID: nid(), Kind: "idp", Args: map[string]string{"refresh": r.Pick([]string{"static", "rotate"})}})
		case 4:
			if r.Chance(0.4) {
				p.Ops = append(p.Ops, Op{ID: nid(), Kind: "idp", Args: map[string]string{"refresh_deny": r.Pick([]string{"true", "false"})}})
			}
		case 5:
			if r.Chance(0.4) {
				p.Ops = append(p.Ops, Op{ID: nid(), Kind: "rotate", S: r.Pick([]string{"nopublish", "publish", "keep-old"})})
			}
		case 6:
			p.Ops = append(p.Ops, Op{ID: nid(), Kind: "idp", Args: map[string]string{"refresh_omit_rt": r.Pick([]string{"true", "false"})}})
		case 7:
			if r.Chance(0.3) {
				p.Ops = append(p.Ops, Op{ID: nid(), Kind: "idp", Args: map[string]string{"byz": r.Pick([]string{"", "foreign-key", "alg-none", "tampered-payload", "aud-foreign"}), "byz_on": "refresh"}})
			}
		}
		if r.Chance(0.3) {
			// another user's exchange right before ours (whatever one exchange leaves behind must not leak into the next)
			p.Ops = append(p.Ops, Op{ID: nid(), Kind: "nav", B: 1, Path: t})
		}
		// requests inside the lifetime must not hit the token endpoint; past it they must refresh
		if r.Chance(0.3) {
			p.Ops = append(p.Ops, Op{ID: nid(), Kind: "adv", D: r.Range(1, 40)}, Op{ID: nid(), Kind: "send", Path: t, S: "own"})
		}
		p.Ops = append(p.Ops, Op{ID: nid(), Kind: "adv", D: life + r.Range(1, 120)})
		if r.Chance(0.3) {
			p.Ops = append(p.Ops, Op{ID: nid(), Kind: "send", B: 1, Path: t, S: "own"}) // the other user's refresh comes first
		}
		if r.Chance(0.15) {
			p.Ops = append(p.Ops, Op{ID: nid(), Kind: "idp-raw", S: r.Pick([]string{`{"error":"invalid_grant"}`, `{}`}), D: 1})
		}
		p.Ops = append(p.Ops, Op{ID: nid(), Kind: "send", Path: t, S: "own"})
		if r.Chance(0.25) {
			p.Ops = append(p.Ops, Op{ID: nid(), Kind: "nav", Path: t}) // the browser follows the redirect if the session ended
		}
	}
	if idx%3 == 1 {
		// a failing exchange together with a failing store write in the same check
		p.Mode = "exchange-and-store-faults"
		for i := 0; i < 3; i++ {
			p.Faults = append(p.Faults, Fault{Site: "idp.token", Nth: r.Range(2, 8), Kind: r.Pick([]string{"500", "reset-before", "503"})})
		}
		for i := 0; i < 3; i++ {
			p.Faults = append(p.Faults, Fault{Site: "store.SetAuthorizationState", Nth: r.Range(2, 6), Kind: r.Pick([]string{"err-before", "err-after"})})
		}
		if r.Chance(0.5) {
			// Redis goes away between two commands of a store call made by a refreshing check
			p.Faults = append(p.Faults, Fault{Site: r.Pick([]string{"store.SetTokenResponse", "store.GetTokenResponse", "store.SetTokenResponse"}), Nth: r.Range(2, 6), Kind: fmt.Sprintf("redis-torn:%d", r.Range(2, 8))})
		}
	}
	if idx%3 == 2 && r.Chance(0.6) {
		// the caller (Envoy) gives up on a check while it is refreshing: the request context is cancelled during the
		// exchange or right before one of the store calls around it; the provider and the in-memory store are unaffected
		p.Mode = "caller-gives-up"
		nf := r.Range(1, 2)
		for i := 0; i < nf; i++ {
			p.Faults = append(p.Faults, Fault{Site: r.Pick([]string{"idp.token", "idp.token", "store.SetTokenResponse", "store.GetTokenResponse"}), Nth: r.Range(2, 6), Kind: "ctx-cancel"})
		}
	}
	if idx%3 == 0 {
		// lost replies: the provider processed (rotated) but the answer never arrived
		nf := r.Range(1, 2)
		for i := 0; i < nf; i++ {
			p.Faults = append(p.Faults, Fault{Site: "idp.token", Nth: r.Range(2, 8), Kind: r.Pick([]string{"reset-after", "reset-before", "500", "truncated"})})
		}
	}
	sprayReplicas(r, p, 0.4)
	return p
}

func ntC11(w *World) bool { return w.Probes["successful-refreshes"] >= 1 }

// ---- C13 -------------------------------------------------------------------------------------------

func genC13(r *Rng, tier string, idx int) *Plan {
	p := &Plan{SchedSeed: r.U64(), Mode: "sequential"}
	p.Spec = genSpec(r, genOpts{Filters: 1, AllowRedis: true, Logout: 0})
	p.Spec.HandlerMode = r.Chance(0.2)
	f := &p.Spec.Filters[0]
	is := &p.Spec.IdPs[0]
	f.ClientID = r.Pick([]string{"client", "cl ient", "a+b&c=d", "id/with?reserved#chars", "ünï-cödé", "100%25", "x;y,z", "sp  ace"})
	switch r.Intn(6) {
	case 0:
		f.Scopes = []string{"openid", "api://app/.default", "a+b", "x&y=z"}
	case 1:
		f.Scopes = []string{"profile", "e mail"}
	case 2:
		f.Scopes = []string{"ünï"}
	case 3:
		f.Scopes = []string{r.Pick([]string{"openid_groups", "https://api.example.com/openid.read", "xopenid", "OpenID", "openid2"}), "email"}
	}
	if r.Chance(0.4) {
		f.CallbackQuery = r.Pick([]string{"?tenant=1", "?a=b&c=d%20e", "?x"})
	}
	if r.Chance(0.3) {
		f.CallbackPath = r.Pick([]string{"/call%20back", "/cb;v=1", "/c/b.php", "/ünï/cb"})
	}
	if r.Chance(0.4) {
		is.AuthQuery = r.Pick([]string{"?tenant=acme", "?a=b&c=d%20e", "?p=1&"})
	}
	if r.Chance(0.3) {
		is.PathPfx = r.Pick([]string{"/realms/a%20b", "/tenant;x=1", "/ünï"})
	}
	id := 0
	nid := func() int { id++; return id }
	if idx%4 == 3 {
		// One client registration (client id, secret) at one provider, used by two chains: each has a redirect URI and
		// scopes of its own, everything that depends only on the provider and the client id is equal. Every login redirect
		// must carry the values of the filter that sent it.
		p.Mode = "shared-client-registration"
		cid, csec, disc, fetch, iv := f.ClientID, f.ClientSecret, f.Discovery, f.JWKSFetch, f.JWKSInterval
		cq, cp := f.CallbackQuery, f.CallbackPath
		saved := *is
		p.Spec = genSpec(r, genOpts{Filters: 2, AllowRedis: true, Logout: 0})
		p.Spec.IdPs[0] = saved
		for i := range p.Spec.Filters {
			g := &p.Spec.Filters[i]
			g.IdP, g.ClientID, g.ClientSecret, g.Discovery, g.JWKSFetch, g.JWKSInterval = 0, cid, csec, disc, fetch, iv
			if g.Logout != nil && g.Logout.RedirectURI == "" && !disc {
				g.Logout.RedirectURI = "https://idp-a.test/ended?x=1"
			}
		}
		p.Spec.Filters[0].CallbackQuery, p.Spec.Filters[0].CallbackPath = cq, cp
		p.Spec.Filters[1].Scopes = [][]string{{"openid", "groups"}, {"profile", "b only"}, nil, {"offline_access"}}[r.Intn(4)]
		if r.Bool() {
			// same host, told apart by a tenant header: the redirect URIs differ in the path only
			p.Spec.Filters[1].AppHost = p.Spec.Filters[0].AppHost
			p.Spec.Filters[0].Match = &MatchSpec{Header: "X-Tenant", Prefix: "tenant-a"}
			p.Spec.Filters[1].Match = &MatchSpec{Header: "X-Tenant", Prefix: "tenant-b"}
			p.Spec.Filters[1].CallbackPath = p.Spec.Filters[0].CallbackPath + "/b"
			if p.Spec.Filters[1].CookiePrefix == p.Spec.Filters[0].CookiePrefix {
				p.Spec.Filters[1].CookiePrefix = "tb"
			}
		}
		n := r.Range(2, 5)
		first := r.Intn(2)
		for i := 0; i < n; i++ {
			fi := (first + i) % 2
			p.Ops = append(p.Ops, Op{ID: nid(), Kind: "nav", B: fi, F: fi, Path: genTarget(r)})
			if r.Chance(0.3) {
				p.Ops = append(p.Ops, Op{ID: nid(), Kind: "adv", D: 4000}, Op{ID: nid(), Kind: "nav", B: fi, F: fi, Path: genTarget(r)})
			}
		}
		return p
	}
	n := r.Range(1, 4)
	for i := 0; i < n; i++ {
		t := genTarget(r)
		if r.Chance(0.12) {
			// the URL first asked for may be any URL of the application's host - the callback endpoint itself included
			// (a bookmark, a reload): it is restored like any other
			t = f.CallbackPath + r.Pick([]string{"", "", "?x=1", "?error=access_denied"})
		}
		b := r.Intn(2)
		p.Ops = append(p.Ops, Op{ID: nid(), Kind: "nav", B: b, Path: t})
		if r.Chance(0.4) {
			p.Ops = append(p.Ops, Op{ID: nid(), Kind: "send", B: 2, Path: genTarget(r), S: r.Pick([]string{"none", "garbage"})})
		}
		if r.Chance(0.3) && f.Logout != nil {
			p.Ops = append(p.Ops, Op{ID: nid(), Kind: "logout", B: b})
		}
		if r.Chance(0.3) {
			p.Ops = append(p.Ops, Op{ID: nid(), Kind: "adv", D: 4000}, Op{ID: nid(), Kind: "nav", B: b, Path: genTarget(r)})
		}
	}
	return p
}

func ntC13(w *World) bool {
	if w.Probes["logins-completed"] == 0 {
		w.probe("runs-without-completed-login")
		if os.Getenv("VERIF_DEBUG_NOLOGIN") != "" {
			w.violate("C13", "debug-no-login", "debug")
		}
	}
	return w.Probes["logins-completed"] >= 1
}

// ---- C14 -------------------------------------------------------------------------------------------

func genC14(r *Rng, tier string, idx int) *Plan {
	var p *Plan
	switch idx % 6 {
	case 0, 1:
		p = genC01(r, tier, 1) // fault-injecting histories
		p.Mode = "fault-injecting"
	case 2:
		p = genC09(r, tier, idx/6)
		p.Mode = "concurrent"
	case 3:
		p = genC11(r, tier, 0)
		p.Mode = "refresh+lost-replies"
	case 4:
		// malformed token-endpoint answers that still carry real tokens, claims of unexpected type
		p = genC15(r, tier, 1+6*(idx/6))
		if (idx/6)%2 == 1 {
			p = genC15(r, tier, 2+6*(idx/6))
		}
		p.Mode = "malformed-idp-answers"
	default:
		j := idx / 6
		p = genC03(r, tier, j/3*4+j%3) // plain logins over the configuration x provider product (discovery documents incl.); not C03's recovery / stall modes
		p.Spec.Filters[0].Discovery = true
		p.Mode = "logins"
		for i := range p.Ops {
			if p.Ops[i].Kind == "adv-frac" {
				p.Ops[i].Kind, p.Ops[i].D = "adv", 30
			}
		}
	}
	// error paths with debug logging exercise the request/response dumpers too
	if r.Chance(0.3) {
		p.Spec.LogLevel = "debug"
	}
	return p
}

func ntC14(w *World) bool { return w.Probes["non-ok-responses-while-secrets-live"] >= 1 }
