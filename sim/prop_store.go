//go:build verif

package verifsim

import (
	"context"
	"errors"
	"fmt"
	"sort"
	"strings"
	"time"

	"github.com/redis/go-redis/v9"

	"github.com/istio-ecosystem/authservice/internal/oidc"
)

// Store-level simulation: the real memory store and two real Redis store instances (sharing one
// miniredis) against a plain-map reference model, with clock advances, Redis command faults and
// crashes between the commands of one store method. Serves C12 (refinement) and C10 (timeouts).

// ---- Redis command seam ------------------------------------------------------------------------------

type cmdFault struct {
	Nth  int    // n-th Redis command of the run (1-based)
	Kind string // err-before | err-after | crash-before | crash-after
}

type faultyCmd struct {
	redis.Cmdable
	env *storeEnv
}

var errCmd = errors.New("sim: injected redis command failure")

func (f *faultyCmd) gate(name string, do func() error, setErr func(error)) {
	e := f.env
	if e.internal {
		_ = do() // harness-internal call: not a seam call of the run
		return
	}
	e.cmds++
	e.cmdLog = append(e.cmdLog, name)
	kind := ""
	for _, cf := range e.cmdFaults {
		if cf.Nth == e.cmds {
			kind = cf.Kind
		}
	}
	switch kind {
	case "err-before":
		e.fired["redis-cmd-err-before"]++
		e.faultedOp = true
		setErr(errCmd)
	case "err-after":
		e.fired["redis-cmd-err-after"]++
		e.faultedOp = true
		_ = do()
		setErr(errCmd)
	case "crash-before":
		e.fired["crash-between-redis-commands"]++
		e.faultedOp = true
		panic(crashPanic{})
	case "crash-after":
		e.fired["crash-between-redis-commands"]++
		e.faultedOp = true
		_ = do()
		panic(crashPanic{})
	default:
		_ = do()
	}
}

func (f *faultyCmd) HSet(ctx context.Context, key string, values ...interface{}) *redis.IntCmd {
	var c *redis.IntCmd
	f.gate("HSET", func() error { c = f.Cmdable.HSet(ctx, key, values...); return c.Err() }, func(err error) { c = redis.NewIntCmd(ctx); c.SetErr(err) })
	return c
}
func (f *faultyCmd) HDel(ctx context.Context, key string, fields ...string) *redis.IntCmd {
	var c *redis.IntCmd
	f.gate("HDEL", func() error { c = f.Cmdable.HDel(ctx, key, fields...); return c.Err() }, func(err error) { c = redis.NewIntCmd(ctx); c.SetErr(err) })
	return c
}
func (f *faultyCmd) HSetNX(ctx context.Context, key, field string, value interface{}) *redis.BoolCmd {
	var c *redis.BoolCmd
	f.gate("HSETNX", func() error { c = f.Cmdable.HSetNX(ctx, key, field, value); return c.Err() }, func(err error) { c = redis.NewBoolCmd(ctx); c.SetErr(err) })
	return c
}
func (f *faultyCmd) HMSet(ctx context.Context, key string, values ...interface{}) *redis.BoolCmd {
	var c *redis.BoolCmd
	f.gate("HMSET", func() error { c = f.Cmdable.HMSet(ctx, key, values...); return c.Err() }, func(err error) { c = redis.NewBoolCmd(ctx); c.SetErr(err) })
	return c
}
func (f *faultyCmd) HMGet(ctx context.Context, key string, fields ...string) *redis.SliceCmd {
	var c *redis.SliceCmd
	f.gate("HMGET", func() error { c = f.Cmdable.HMGet(ctx, key, fields...); return c.Err() }, func(err error) { c = redis.NewSliceCmd(ctx); c.SetErr(err) })
	return c
}
func (f *faultyCmd) HGet(ctx context.Context, key, field string) *redis.StringCmd {
	var c *redis.StringCmd
	f.gate("HGET", func() error { c = f.Cmdable.HGet(ctx, key, field); return c.Err() }, func(err error) { c = redis.NewStringCmd(ctx); c.SetErr(err) })
	return c
}
func (f *faultyCmd) Del(ctx context.Context, keys ...string) *redis.IntCmd {
	var c *redis.IntCmd
	f.gate("DEL", func() error { c = f.Cmdable.Del(ctx, keys...); return c.Err() }, func(err error) { c = redis.NewIntCmd(ctx); c.SetErr(err) })
	return c
}
func (f *faultyCmd) ExpireAt(ctx context.Context, key string, tm time.Time) *redis.BoolCmd {
	var c *redis.BoolCmd
	f.gate("EXPIREAT", func() error { c = f.Cmdable.ExpireAt(ctx, key, tm); return c.Err() }, func(err error) { c = redis.NewBoolCmd(ctx); c.SetErr(err) })
	return c
}

// TxPipelined is ONE seam command (MULTI ... EXEC is applied as a whole or not at all): it can fail before or
// after its effect, and the process can crash on either side of it.
func (f *faultyCmd) TxPipelined(ctx context.Context, fn func(redis.Pipeliner) error) ([]redis.Cmder, error) {
	var cmds []redis.Cmder
	var err error
	f.gate("MULTI/EXEC", func() error { cmds, err = f.Cmdable.TxPipelined(ctx, fn); return err }, func(e error) { cmds, err = nil, e })
	return cmds, err
}

// ---- environment -----------------------------------------------------------------------------------------

type mSess struct {
	Tokens  *oidc.TokenResponse
	State   *oidc.AuthorizationState
	Created time.Time
	// LastUsedMin: last operation that certainly counts as use (a write, or a read that returned data).
	// LastUsed: last operation of any kind on the id (a read that found nothing to return, a clear):
	// whether such an access extends the idle limit is left to the implementation.
	LastUsedMin time.Time
	LastUsed    time.Time
}

type storeEnv struct {
	abs, idle time.Duration
	mem       oidc.SessionStore
	redisA    oidc.SessionStore
	redisB    oidc.SessionStore
	clients   []*redis.Client
	memModel  map[string]*mSess
	redModel  map[string]*mSess
	cmds      int
	cmdLog    []string
	cmdFaults []cmdFault
	fired     map[string]int
	probes    map[string]int
	faultedOp bool
	internal  bool
	viol      []Violation
	log       []string
	lastSync  time.Time
	start     time.Time
	prop      string
	timeouts  bool // judge expiry (C10); otherwise histories stay inside the limits (C12)
}

func newStoreEnv(prop string, abs, idle time.Duration, faults []cmdFault) (*storeEnv, error) {
	e := &storeEnv{abs: abs, idle: idle, memModel: map[string]*mSess{}, redModel: map[string]*mSess{}, cmdFaults: faults,
		fired: map[string]int{}, probes: map[string]int{}, lastSync: time.Now(), start: time.Now(), prop: prop}
	m := penv.redis["redis"]
	m.FlushAll()
	m.SetError("")
	m.SetTime(time.Now())
	e.mem = oidc.NewMemoryStore(&oidc.Clock{}, abs, idle)
	for i := 0; i < 2; i++ {
		c := redis.NewClient(&redis.Options{Addr: m.Addr(), DisableIndentity: true, Protocol: 2, MaxRetries: -1,
			DialTimeout: 10 * time.Minute, ReadTimeout: 10 * time.Minute, WriteTimeout: 10 * time.Minute, PoolTimeout: 10 * time.Minute}) // (go-redis deadlines are real time)
		e.clients = append(e.clients, c)
		st, err := oidc.NewRedisStore(&oidc.Clock{}, &faultyCmd{Cmdable: c, env: e}, abs, idle)
		if err != nil {
			return nil, err
		}
		if i == 0 {
			e.redisA = st
		} else {
			e.redisB = st
		}
	}
	return e, nil
}

func (e *storeEnv) close() {
	for _, c := range e.clients {
		_ = c.Close()
	}
}

func (e *storeEnv) sync() {
	now := time.Now()
	if d := now.Sub(e.lastSync); d > 0 {
		m := penv.redis["redis"]
		m.FastForward(d)
		m.SetTime(now)
		e.lastSync = now
	}
}

func (e *storeEnv) violate(sig, detail string) {
	if len(e.viol) < 10 {
		e.viol = append(e.viol, Violation{e.prop, sig, detail})
	}
}

func (e *storeEnv) logf(f string, a ...any) {
	if len(e.log) < 300 {
		e.log = append(e.log, fmt.Sprintf("t=%v ", time.Since(e.start).Round(time.Millisecond))+fmt.Sprintf(f, a...))
	}
}

// expiry returns the instant after which the model session must not be honoured (zero: never).
func (e *storeEnv) expiry(s *mSess, lastUsed time.Time) time.Time {
	var ex time.Time
	if e.abs > 0 {
		ex = s.Created.Add(e.abs)
	}
	if e.idle > 0 {
		if t := lastUsed.Add(e.idle); ex.IsZero() || t.Before(ex) {
			ex = t
		}
	}
	return ex
}

// liveness classifies the model session at the current instant: "live", "dead" or "edge" (within
// one second of the limit: either answer is allowed, one second of timestamp granularity aside).
func (e *storeEnv) liveness(s *mSess) string {
	if s == nil {
		return "absent"
	}
	exMin, exMax := e.expiry(s, s.LastUsedMin), e.expiry(s, s.LastUsed)
	if exMin.IsZero() {
		return "live"
	}
	now := time.Now()
	switch {
	case now.After(exMax.Add(time.Second)):
		return "dead"
	case now.Before(exMin.Add(-time.Second)):
		return "live"
	}
	return "edge"
}

func tokEq(a, b *oidc.TokenResponse) bool {
	if a == nil || b == nil {
		return a == b
	}
	return a.IDToken == b.IDToken && a.AccessToken == b.AccessToken && a.RefreshToken == b.RefreshToken && a.AccessTokenExpiresAt.Equal(b.AccessTokenExpiresAt)
}
func stEq(a, b *oidc.AuthorizationState) bool {
	if a == nil || b == nil {
		return a == b
	}
	return *a == *b
}
func tokStr(t *oidc.TokenResponse) string {
	if t == nil {
		return "nil"
	}
	return fmt.Sprintf("{id:%.12s.. at:%q rt:%q exp:%v}", t.IDToken, t.AccessToken, t.RefreshToken, t.AccessTokenExpiresAt.Format(time.TimeOnly))
}

// storeOp is one generated store operation.
type storeOp struct {
	Kind  string // settok gettok setstate getstate clear remove sweep adv
	Store string // mem | A | B
	ID    string
	Tok   *oidc.TokenResponse
	St    *oidc.AuthorizationState
	D     time.Duration
}

// apply executes op on the real store and on the model and compares.
func (e *storeEnv) apply(n int, op storeOp) {
	ctx := context.Background()
	if op.Kind == "adv" {
		time.Sleep(op.D)
		e.sync()
		e.logf("#%d advance %v", n, op.D)
		return
	}
	e.sync()
	st, model := e.mem, e.memModel
	isRedis := op.Store != "mem"
	if op.Store == "A" {
		st, model = e.redisA, e.redModel
	} else if op.Store == "B" {
		st, model = e.redisB, e.redModel
	}
	ms := model[op.ID]
	live := e.liveness(ms)
	if live == "dead" && e.timeouts {
		// past its limits: to the abstract map the session no longer exists
		e.probes["ops-on-expired-session"]++
	}
	e.faultedOp = false
	now := time.Now()
	var err error
	var gotTok *oidc.TokenResponse
	var gotSt *oidc.AuthorizationState
	crashed := false
	func() {
		defer func() {
			if p := recover(); p != nil {
				if _, ok := p.(crashPanic); ok {
					crashed = true
					return
				}
				panic(p)
			}
		}()
		switch op.Kind {
		case "settok":
			err = st.SetTokenResponse(ctx, op.ID, op.Tok)
		case "gettok":
			gotTok, err = st.GetTokenResponse(ctx, op.ID)
		case "setstate":
			err = st.SetAuthorizationState(ctx, op.ID, op.St)
		case "getstate":
			gotSt, err = st.GetAuthorizationState(ctx, op.ID)
		case "clear":
			err = st.ClearAuthorizationState(ctx, op.ID)
		case "remove":
			err = st.RemoveSession(ctx, op.ID)
		case "sweep":
			err = st.RemoveAllExpired(ctx)
		}
	}()
	e.logf("#%d %s.%s(%s) model=%s -> tok=%s st=%v err=%v crashed=%v", n, op.Store, op.Kind, op.ID, live, tokStr(gotTok), gotSt != nil, err, crashed)
	if e.faultedOp || crashed {
		// an injected command failure or crash inside this method: the method may have applied any prefix of
		// its field writes, never a value that was not written. Re-synchronise the model from ground truth.
		e.afterFault(op, ms, model)
		return
	}
	if op.Kind == "sweep" {
		if err != nil {
			e.violate("sweep-error", fmt.Sprintf("op #%d RemoveAllExpired: %v", n, err))
		}
		return
	}
	// "dead" sessions are absent for the abstract map; "edge" follows the implementation
	if live == "dead" && e.timeouts {
		delete(model, op.ID)
		ms = nil
	}
	switch op.Kind {
	case "settok", "setstate":
		if err != nil {
			e.violate("write-failed", fmt.Sprintf("op #%d %s.%s(%s): %v", n, op.Store, op.Kind, op.ID, err))
			return
		}
		if ms != nil && live == "edge" && e.timeouts {
			// exactly at a limit: the store may have expired the old session (the write then starts a new
			// one) or not; the model follows ground truth
			if gt := e.truth(isRedis, op.ID); gt != nil && !gt.Created.Equal(ms.Created) {
				ms = nil
			}
		}
		if ms == nil {
			ms = &mSess{Created: now}
			model[op.ID] = ms
			e.probes["sessions-created"]++
		}
		ms.LastUsed, ms.LastUsedMin = now, now
		if op.Kind == "settok" {
			if ms.Tokens != nil && (ms.Tokens.AccessToken != "" && op.Tok.AccessToken == "" || ms.Tokens.RefreshToken != "" && op.Tok.RefreshToken == "") {
				e.probes["overwrite-with-fewer-members"]++
			}
			cp := *op.Tok
			ms.Tokens = &cp
		} else {
			cp := *op.St
			ms.State = &cp
		}
	case "gettok", "getstate":
		if err != nil {
			e.violate("read-failed", fmt.Sprintf("op #%d %s.%s(%s): %v", n, op.Store, op.Kind, op.ID, err))
			return
		}
		var wantTok *oidc.TokenResponse
		var wantSt *oidc.AuthorizationState
		if ms != nil {
			wantTok, wantSt = ms.Tokens, ms.State
		}
		absentOK := live == "edge" && e.timeouts
		if op.Kind == "gettok" {
			if !tokEq(gotTok, wantTok) && !(absentOK && gotTok == nil) {
				sig := "read-differs-from-latest-write:tokens"
				if live == "dead" || ms == nil {
					sig = "expired-or-removed-session-still-readable:tokens"
					if live == "dead" {
						sig = "session-honoured-after-timeout:" + e.which(model[op.ID], ms)
					}
				} else if gotTok == nil {
					sig = "live-session-dropped:tokens"
				}
				e.violate(sig, fmt.Sprintf("op #%d %s.GetTokenResponse(%s) returned %s, the abstract map holds %s (model state %s, abs=%v idle=%v)", n, op.Store, op.ID, tokStr(gotTok), tokStr(wantTok), live, e.abs, e.idle))
			}
			if absentOK && gotTok == nil && wantTok != nil {
				delete(model, op.ID)
				ms = nil
			}
		} else {
			if !stEq(gotSt, wantSt) && !(absentOK && gotSt == nil) {
				sig := "read-differs-from-latest-write:state"
				if live == "dead" {
					sig = "session-honoured-after-timeout:state"
				} else if ms == nil {
					sig = "expired-or-removed-session-still-readable:state"
				} else if gotSt == nil {
					sig = "live-session-dropped:state"
				}
				e.violate(sig, fmt.Sprintf("op #%d %s.GetAuthorizationState(%s) returned %v, the abstract map holds %v (model state %s, abs=%v idle=%v)", n, op.Store, op.ID, gotSt, wantSt, live, e.abs, e.idle))
			}
			if absentOK && gotSt == nil && wantSt != nil {
				delete(model, op.ID)
				ms = nil
			}
		}
		if ms != nil {
			ms.LastUsed = now
			if gotTok != nil || gotSt != nil {
				ms.LastUsedMin = now
			}
			if live == "live" {
				e.probes["reads-inside-limits"]++
			}
		}
		if live == "dead" {
			e.probes["reads-past-limits"]++
		}
	case "clear":
		if err != nil {
			// tolerated: clearing the login state of an absent session may fail on Redis provided it stays absent
			if ms != nil && live == "live" {
				e.violate("clear-failed", fmt.Sprintf("op #%d %s.ClearAuthorizationState(%s): %v", n, op.Store, op.ID, err))
			}
		}
		if ms != nil {
			ms.State = nil
			ms.LastUsed = now
			e.probes["clear-on-live-session"]++
		}
	case "remove":
		if err != nil {
			e.violate("remove-failed", fmt.Sprintf("op #%d: %v", n, err))
		}
		if ms != nil {
			e.probes["remove-live-session"]++
		}
		delete(model, op.ID)
	}
	if live == "edge" && e.timeouts && model[op.ID] != nil && e.truth(isRedis, op.ID) == nil {
		// exactly at a limit the store may already have dropped the session
		delete(model, op.ID)
	}
	e.crossCheck(n, isRedis)
}

func (e *storeEnv) which(cur, ms *mSess) string {
	if ms == nil {
		return "tokens"
	}
	now := time.Now()
	if e.abs > 0 && now.After(ms.Created.Add(e.abs)) {
		return "absolute"
	}
	return "idle"
}

// ground truth ------------------------------------------------------------------------------------------

func (e *storeEnv) truth(isRedis bool, id string) *mSess {
	if !isRedis {
		snap, _ := oidc.VerifPeekMemory(e.mem, id)
		if snap == nil {
			return nil
		}
		return &mSess{Tokens: snap.Tokens, State: snap.State, Created: snap.Added, LastUsed: snap.Accessed}
	}
	m := penv.redis["redis"]
	if !m.Exists(id) {
		return nil
	}
	s := &mSess{}
	get := func(k string) string { return m.HGet(id, k) }
	if get("id_token") != "" || get("access_token") != "" || get("refresh_token") != "" || get("access_token_expiry") != "" {
		s.Tokens = &oidc.TokenResponse{IDToken: get("id_token"), AccessToken: get("access_token"), RefreshToken: get("refresh_token")}
		if v := get("access_token_expiry"); v != "" {
			s.Tokens.AccessTokenExpiresAt, _ = time.Parse(time.RFC3339Nano, v)
		}
	}
	if get("state") != "" || get("nonce") != "" || get("requested_url") != "" {
		s.State = &oidc.AuthorizationState{State: get("state"), Nonce: get("nonce"), RequestedURL: get("requested_url"), CodeVerifier: get("code_verifier")}
	}
	if v := get("time_added"); v != "" {
		s.Created, _ = time.Parse(time.RFC3339Nano, v)
	}
	return s
}

func (e *storeEnv) truthIDs(isRedis bool) []string {
	var ids []string
	if !isRedis {
		ids = oidc.VerifMemoryIDs(e.mem)
	} else {
		ids = penv.redis["redis"].Keys()
	}
	sort.Strings(ids)
	return ids
}

// crossCheck compares the complete ground-truth content of the store with the model.
func (e *storeEnv) crossCheck(n int, isRedis bool) {
	model := e.memModel
	name := "memory"
	if isRedis {
		model, name = e.redModel, "redis"
	}
	for _, id := range e.truthIDs(isRedis) {
		ms := model[id]
		if ms == nil {
			// memory store keeps expired sessions until swept; that is C10's concern, judged on reads
			if !isRedis && e.timeouts {
				continue
			}
			e.violate("store-holds-session-the-map-does-not:"+name, fmt.Sprintf("after op #%d the %s store holds %q", n, name, id))
			continue
		}
		if e.liveness(ms) != "live" {
			continue
		}
		gt := e.truth(isRedis, id)
		if gt == nil {
			continue
		}
		if !tokEq(gt.Tokens, ms.Tokens) && !(ms.Tokens != nil && gt.Tokens != nil && tokEq(gt.Tokens, ms.Tokens)) {
			e.violate("stored-tokens-differ-from-map:"+name, fmt.Sprintf("after op #%d id %q: store %s, map %s", n, id, tokStr(gt.Tokens), tokStr(ms.Tokens)))
		}
		if ms.State == nil && gt.State != nil || ms.State != nil && (gt.State == nil || *gt.State != *ms.State) {
			e.violate("stored-state-differs-from-map:"+name, fmt.Sprintf("after op #%d id %q: store %v, map %v", n, id, gt.State, ms.State))
		}
		if !gt.Created.Equal(ms.Created) {
			e.violate("creation-time-moved:"+name, fmt.Sprintf("after op #%d id %q: store %v, first write %v", n, id, gt.Created.Format(time.TimeOnly), ms.Created.Format(time.TimeOnly)))
		}
	}
	for id, ms := range model {
		if e.liveness(ms) != "live" {
			continue
		}
		if e.truth(isRedis, id) == nil {
			e.violate("live-session-missing-from-store:"+name, fmt.Sprintf("after op #%d id %q is in the map but not in the %s store", n, id, name))
		}
	}
}

// afterFault checks the narrow relaxation after an interrupted Redis method and re-synchronises.
func (e *storeEnv) afterFault(op storeOp, before *mSess, model map[string]*mSess) {
	e.probes["methods-interrupted-by-fault"]++
	gt := e.truth(true, op.ID)
	allowedTok := func(v, old, new string) bool { return v == old || v == new || v == "" }
	var oldT, newT oidc.TokenResponse
	var oldS, newS oidc.AuthorizationState
	if before != nil && before.Tokens != nil {
		oldT = *before.Tokens
	}
	if before != nil && before.State != nil {
		oldS = *before.State
	}
	newT, newS = oldT, oldS
	if op.Tok != nil {
		newT = *op.Tok
	}
	if op.St != nil {
		newS = *op.St
	}
	if gt != nil {
		t := oidc.TokenResponse{}
		if gt.Tokens != nil {
			t = *gt.Tokens
		}
		s := oidc.AuthorizationState{}
		if gt.State != nil {
			s = *gt.State
		}
		if !allowedTok(t.IDToken, oldT.IDToken, newT.IDToken) || !allowedTok(t.AccessToken, oldT.AccessToken, newT.AccessToken) || !allowedTok(t.RefreshToken, oldT.RefreshToken, newT.RefreshToken) ||
			!allowedTok(s.State, oldS.State, newS.State) || !allowedTok(s.Nonce, oldS.Nonce, newS.Nonce) || !allowedTok(s.RequestedURL, oldS.RequestedURL, newS.RequestedURL) {
			e.violate("value-never-written-appears-after-fault", fmt.Sprintf("after interrupted %s(%s): store tokens %s state %v", op.Kind, op.ID, tokStr(gt.Tokens), gt.State))
		}
	}
	// other ids must be untouched
	for id, ms := range model {
		if id == op.ID || e.liveness(ms) != "live" {
			continue
		}
		o := e.truth(true, id)
		if o == nil || !tokEq(o.Tokens, ms.Tokens) {
			e.violate("fault-on-one-id-changed-another", fmt.Sprintf("interrupted %s(%s) changed %q", op.Kind, op.ID, id))
		}
	}
	// re-synchronise: the model adopts ground truth for this id (partial sessions are whatever a read returns)
	if gt == nil {
		delete(model, op.ID)
		return
	}
	if gt.Created.IsZero() {
		// a session without creation timestamp is self-destructed by the store on next touch; treat as unknown:
		// remove it from both so that later steps stay exact
		penv.redis["redis"].Del(op.ID)
		delete(model, op.ID)
		return
	}
	ms := &mSess{Created: gt.Created, LastUsed: time.Now(), LastUsedMin: time.Now()}
	if gt.Tokens != nil && gt.Tokens.IDToken != "" {
		ms.Tokens = gt.Tokens
	} else if gt.Tokens != nil {
		// tokens without id_token are invisible through the interface; drop the fields for exactness
		for _, k := range []string{"access_token", "refresh_token", "access_token_expiry"} {
			penv.redis["redis"].HDel(op.ID, k)
		}
	}
	if gt.State != nil && gt.State.State != "" && gt.State.Nonce != "" && gt.State.RequestedURL != "" && gt.State.CodeVerifier != "" {
		ms.State = gt.State
	} else if gt.State != nil {
		for _, k := range []string{"state", "nonce", "requested_url"} {
			penv.redis["redis"].HDel(op.ID, k)
		}
	}
	model[op.ID] = ms
	// the TTL may be stale after an interrupted method; a touch through the other instance refreshes it
	e.internal = true
	_, _ = e.redisB.GetTokenResponse(context.Background(), op.ID)
	e.internal = false
	if e.faultedOp {
		e.faultedOp = false
	}
}

// ---- generation ------------------------------------------------------------------------------------------

func genTokenValue(r *Rng, n int, now time.Time) *oidc.TokenResponse {
	claims := map[string]any{"sub": fmt.Sprintf("u%d", n), "jti": r.Str(8), "exp": 4102444800}
	t := &oidc.TokenResponse{IDToken: SignHS256([]byte("k"), nil, claims)}
	if r.Chance(0.7) {
		t.AccessToken = fmt.Sprintf("at-%d-%s", n, r.Str(6))
	}
	if r.Chance(0.6) {
		t.RefreshToken = fmt.Sprintf("rt-%d-%s", n, r.Str(6))
	}
	if r.Chance(0.7) {
		t.AccessTokenExpiresAt = now.Add(time.Duration(r.Range(1, 100000)) * time.Second).Add(time.Duration(r.Intn(1000000000)))
	}
	return t
}

func genStateValue(r *Rng, n int) *oidc.AuthorizationState {
	return &oidc.AuthorizationState{State: fmt.Sprintf("st-%d-%s", n, r.Str(6)), Nonce: fmt.Sprintf("no-%d-%s", n, r.Str(6)),
		RequestedURL: "https://app/x?n=" + fmt.Sprint(n) + "&u=" + r.Str(4), CodeVerifier: fmt.Sprintf("cv-%d-%s", n, r.Str(8))}
}

// ---- plan encoding (ops are drawn lazily from the plan's seed so that values are unique) ------------------

func init() {
	register(&PropDef{ID: "C12", Gen: genC12, Run: runC12})
}

func genC12(r *Rng, tier string, idx int) *Plan {
	p := &Plan{SchedSeed: r.U64()}
	if idx%4 == 3 {
		genC12Lin(r, p)
		return p
	}
	n := r.Range(5, 80)
	nids := r.Range(1, 4)
	p.Mode = "fault-free"
	if idx%3 == 2 {
		p.Mode = "redis-command-faults"
	}
	for i := 0; i < n; i++ {
		op := Op{ID: i + 1, B: r.Intn(nids)}
		switch r.Intn(14) {
		case 0, 1, 2:
			op.Kind = "settok"
		case 3, 4, 5:
			op.Kind = "gettok"
		case 6, 7:
			op.Kind = "setstate"
		case 8, 9:
			op.Kind = "getstate"
		case 10:
			op.Kind = "clear"
		case 11:
			op.Kind = "remove"
		case 12:
			op.Kind = "adv"
			op.D = r.Range(1, 50)
		case 13:
			op.Kind = "sweep"
		}
		op.S = []string{"mem", "A", "B"}[r.Intn(3)]
		if p.Mode == "redis-command-faults" && op.S == "mem" {
			op.S = "A"
		}
		p.Ops = append(p.Ops, op)
	}
	// timeouts: none, or far beyond the horizon of the history (expiry is C10's subject) ...
	if p.Mode == "fault-free" && r.Chance(0.3) {
		// ... or inside it: sessions also leave the map by running out, and whatever an implementation keeps of them
		// must not show under the same or another id afterwards ("ids do not interfere", "a read sees the latest write")
		p.Mode = "expiring-sessions"
		lim := [][2]int{{40, 0}, {0, 25}, {120, 30}, {30, 0}, {0, 60}}[r.Intn(5)]
		p.Ops = append([]Op{{ID: 0, Kind: "timeouts", D: lim[0], F: lim[1]}}, p.Ops...)
	} else if r.Bool() {
		p.Ops = append([]Op{{ID: 0, Kind: "timeouts", D: 100000, F: 100000}}, p.Ops...)
	}
	if p.Mode == "redis-command-faults" {
		nf := r.Range(1, 3)
		for i := 0; i < nf; i++ {
			p.Faults = append(p.Faults, Fault{Site: "redis.cmd", Nth: r.Range(1, 3*n), Kind: r.Pick([]string{"err-before", "err-after", "crash-before", "crash-after"})})
		}
	}
	return p
}

func cmdFaultsOf(p *Plan) []cmdFault {
	var fs []cmdFault
	for _, f := range p.Faults {
		if f.Site == "redis.cmd" {
			fs = append(fs, cmdFault{f.Nth, f.Kind})
		}
	}
	return fs
}

func runStorePlan(p *Plan, prop string, timeouts bool) *Result {
	var abs, idle time.Duration
	for _, op := range p.Ops {
		if op.Kind == "timeouts" {
			abs, idle = time.Duration(op.D)*time.Second, time.Duration(op.F)*time.Second
		}
	}
	e, err := newStoreEnv(prop, abs, idle, cmdFaultsOf(p))
	if err != nil {
		return &Result{Infra: "store environment: " + err.Error()}
	}
	defer e.close()
	e.timeouts = timeouts
	r := NewRng(p.SchedSeed)
	usedOn := map[string]map[string]bool{}
	for i := range p.Ops {
		op := &p.Ops[i]
		if op.Kind == "timeouts" {
			continue
		}
		if op.Kind == "keepalive" {
			// keep one session in use (every idle/2) until just before its ABSOLUTE limit, then step over it:
			// activity must extend the idle limit only
			id := fmt.Sprintf("sess-%d", op.B)
			model := e.memModel
			if op.S != "mem" {
				model = e.redModel
			}
			if abs <= 0 || idle < 4*time.Second || idle >= abs || abs/idle > 400 {
				continue
			}
			e.apply(op.ID, storeOp{Kind: "settok", Store: op.S, ID: id, Tok: genTokenValue(NewRng(p.SchedSeed^uint64(op.ID)), op.ID, time.Now())})
			for k := 0; k < 900 && len(e.viol) == 0; k++ {
				ms := model[id]
				if ms == nil {
					break
				}
				left := time.Until(ms.Created.Add(abs))
				if left < idle/2+3*time.Second {
					if left > 3*time.Second {
						e.apply(op.ID, storeOp{Kind: "adv", D: left - 2*time.Second})
						e.apply(op.ID, storeOp{Kind: "gettok", Store: op.S, ID: id})
					}
					e.apply(op.ID, storeOp{Kind: "adv", D: 4 * time.Second})
					e.apply(op.ID, storeOp{Kind: "gettok", Store: op.S, ID: id})
					e.probes["kept-alive-up-to-the-absolute-limit"]++
					break
				}
				e.apply(op.ID, storeOp{Kind: "adv", D: idle / 2})
				e.apply(op.ID, storeOp{Kind: []string{"gettok", "gettok", "settok", "getstate"}[k%4], Store: []string{op.S, op.S, op.S}[k%3], ID: id, Tok: genTokenValue(NewRng(p.SchedSeed^uint64(op.ID*1000+k)), op.ID*1000+k, time.Now())})
			}
			continue
		}
		so := storeOp{Kind: op.Kind, Store: op.S, ID: fmt.Sprintf("sess-%d", op.B), D: time.Duration(op.D) * time.Second}
		if op.Kind == "adv-ms" {
			so.Kind, so.D = "adv", time.Duration(op.D)*time.Millisecond
		}
		vr := NewRng(p.SchedSeed ^ uint64(op.ID)*7919)
		if so.Kind == "settok" {
			so.Tok = genTokenValue(vr, op.ID, time.Now())
		}
		if so.Kind == "setstate" {
			so.St = genStateValue(vr, op.ID)
		}
		if so.Store != "mem" && so.Kind != "adv" {
			if usedOn[so.ID] == nil {
				usedOn[so.ID] = map[string]bool{}
			}
			usedOn[so.ID][so.Store] = true
			if len(usedOn[so.ID]) == 2 {
				e.probes["same-id-on-both-redis-instances"]++
			}
		}
		e.apply(op.ID, so)
		if len(e.viol) > 0 {
			break
		}
	}
	_ = r
	res := &Result{Viol: e.viol, Faults: e.fired, Probes: e.probes, Log: e.log, SimSecs: time.Since(e.start).Seconds(), Steps: e.cmds}
	var sig strings.Builder
	for _, l := range e.log {
		if i := strings.Index(l, "#"); i >= 0 {
			sig.WriteString(l[i:])
		}
	}
	res.TraceHash = hash64(sig.String())
	res.SchedHash = hash64(strings.Join(e.cmdLog, ","))
	res.Nontrivial = e.probes["sessions-created"] > 0 && (e.probes["reads-inside-limits"] > 0 || e.probes["reads-past-limits"] > 0)
	res.Summary = fmt.Sprintf("mode=%s abs=%v idle=%v ops=%d redis-commands=%d", p.Mode, abs, idle, len(p.Ops), e.cmds)
	return res
}

func runC12(p *Plan) *Result {
	if p.Mode == "concurrent-memory" {
		return runC12Lin(p)
	}
	return runStorePlan(p, "C12", p.Mode == "expiring-sessions")
}
