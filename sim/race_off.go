//go:build verif && !race

package verifsim

const raceBuild = false
