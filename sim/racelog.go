//go:build verif

package verifsim

import (
	"fmt"
	"os"
	"sort"
	"strings"
	"sync"
	"testing"
	"testing/synctest"
	"time"
)

// ThreadSanitizer writes its reports to $GORACE log_path.<pid>. The worker reads what was appended
// during a run and turns every report into a violation whose signature is the canonical pair of the
// innermost authservice functions of the two conflicting accesses.

var raceLogPath string
var raceLogOff int64

func initRaceLog() {
	if !raceBuild {
		return
	}
	gr := os.Getenv("GORACE")
	for _, kv := range strings.Fields(gr) {
		if strings.HasPrefix(kv, "log_path=") {
			raceLogPath = strings.TrimPrefix(kv, "log_path=") + fmt.Sprintf(".%d", os.Getpid())
		}
	}
}

func raceDelta() string {
	if raceLogPath == "" {
		return ""
	}
	b, err := os.ReadFile(raceLogPath)
	if err != nil || int64(len(b)) <= raceLogOff {
		return ""
	}
	d := string(b[raceLogOff:])
	raceLogOff = int64(len(b))
	return d
}

const modPrefix = "github.com/istio-ecosystem/authservice/"

// canonFrame picks the innermost frame of an access stack that belongs to authservice proper; if there
// is none, the innermost non-runtime frame. harness reports whether only simulator frames were seen.
func canonFrame(lines []string) (name string, harnessOnly bool) {
	sawHarness := false
	var fns []string
	for _, ln := range lines {
		if strings.HasPrefix(ln, "      ") || !strings.HasPrefix(ln, "  ") {
			continue // file:line rows / headers
		}
		fn := strings.TrimSuffix(strings.TrimSpace(ln), "()")
		fns = append(fns, fn)
		if strings.HasPrefix(fn, modPrefix) {
			if strings.Contains(fn, "/verifsim.") || strings.Contains(fn, "/simsync.") {
				sawHarness = true
				continue
			}
			if strings.Contains(fn, "/config/gen/") {
				continue // generated accessors: the site is their caller
			}
			fn = strings.TrimPrefix(fn, modPrefix)
			// closures of one function are one site
			for strings.HasSuffix(fn, ".func1") || strings.HasSuffix(fn, ".func2") || strings.HasSuffix(fn, ".func3") || strings.HasSuffix(fn, ".1") || strings.HasSuffix(fn, ".2") {
				fn = fn[:strings.LastIndex(fn, ".")]
			}
			return fn, false
		}
	}
	// no authservice frame: name the library the access happened in, coarsely (the innermost frame varies
	// with what happens to be touched first)
	for _, root := range []string{"crypto/tls.", "net/http.", "github.com/lestrrat-go/", "github.com/redis/", "sigs.k8s.io/", "google.golang.org/protobuf", "crypto/x509."} {
		for _, fn := range fns {
			if strings.HasPrefix(fn, root) {
				return "[" + strings.TrimSuffix(root, ".") + "]", sawHarness
			}
		}
	}
	for _, fn := range fns {
		if !strings.HasPrefix(fn, "runtime.") && !strings.HasPrefix(fn, "internal/runtime") {
			if i := strings.LastIndex(fn, "/"); i >= 0 {
				if j := strings.Index(fn[i:], "."); j >= 0 {
					return "[" + fn[:i+j] + "]", sawHarness
				}
			}
			return "[" + fn + "]", sawHarness
		}
	}
	return "[runtime]", sawHarness
}

// parseRaceReports returns the canonical signature of every report in txt (deduplicated).
func parseRaceReports(txt string) (sigs []string, details map[string]string, harness []string) {
	details = map[string]string{}
	for _, rep := range strings.Split(txt, "==================") {
		if !strings.Contains(rep, "WARNING: DATA RACE") {
			continue
		}
		lines := strings.Split(rep, "\n")
		var stacks [][]string
		var cur []string
		in := false
		for _, ln := range lines {
			isHdr := strings.HasPrefix(ln, "Write at") || strings.HasPrefix(ln, "Read at") || strings.HasPrefix(ln, "Previous write at") || strings.HasPrefix(ln, "Previous read at") ||
				strings.HasPrefix(ln, "Atomic") || strings.HasPrefix(ln, "Previous atomic")
			if isHdr {
				if in {
					stacks = append(stacks, cur)
				}
				cur, in = nil, true
				continue
			}
			if in && strings.TrimSpace(ln) == "" {
				stacks = append(stacks, cur)
				cur, in = nil, false
				continue
			}
			if in {
				cur = append(cur, ln)
			}
		}
		if in {
			stacks = append(stacks, cur)
		}
		if len(stacks) < 2 {
			continue
		}
		a, ha := canonFrame(stacks[0])
		b, hb := canonFrame(stacks[1])
		inAuth := func(s string) bool {
			return strings.HasPrefix(s, "internal") || strings.HasPrefix(s, "config/") || strings.HasPrefix(s, "cmd/")
		}
		if ha && hb && !inAuth(a) && !inAuth(b) {
			harness = append(harness, rep)
			continue
		}
		pair := []string{a, b}
		sort.Strings(pair)
		sig := "race:" + pair[0] + " | " + pair[1]
		if _, ok := details[sig]; !ok {
			sigs = append(sigs, sig)
			if len(rep) > 2500 {
				rep = rep[:2500]
			}
			details[sig] = rep
		}
	}
	sort.Strings(sigs)
	return sigs, details, harness
}

// raceControls proves, at the start of a race-build worker, that the sleep-scheduled serial execution
// is transparent to the race detector: an unlocked shared map access by two tasks MUST be reported, the
// same with a mutex must NOT.
func raceControls(t *testing.T) string {
	if raceLogPath == "" {
		return ""
	}
	run := func(lock bool) bool {
		raceDelta()
		t.Run("ctl", func(t2 *testing.T) {
			synctest.Test(t2, func(*testing.T) {
				m := map[int]int{}
				var mu sync.Mutex
				done := make(chan struct{}, 2)
				for i := 0; i < 2; i++ {
					i := i
					go func() {
						time.Sleep(time.Duration(1+i) * time.Millisecond)
						if lock {
							mu.Lock()
						}
						m[i] = i
						if lock {
							mu.Unlock()
						}
						done <- struct{}{}
					}()
				}
				<-done
				<-done
			})
		})
		return strings.Contains(raceDelta(), "DATA RACE")
	}
	if run(true) {
		return "negative control failed: a mutex-protected access was reported as a race"
	}
	if !run(false) {
		return "positive control failed: an unsynchronised map access under the serial sleep schedule was NOT reported"
	}
	return ""
}
