//go:build verif

package verifsim

import (
	"encoding/json"
	"fmt"
	"os"
	"path/filepath"
	"runtime"
	"runtime/debug"
	"strconv"
	"strings"
	"testing"
	"testing/synctest"
	"time"
)

func TestMain(m *testing.M) {
	initProcEnv()
	code := m.Run()
	closeProcEnv()
	os.Exit(code)
}

type workerOut struct {
	Worker      int               `json:"worker"`
	Prop        string            `json:"prop"`
	Runs        int               `json:"runs"`
	Nontrivial  int               `json:"nontrivial"`
	Hashes      []string          `json:"hashes"`       // distinct canonical traces of non-trivial runs
	SchedHashes []string          `json:"sched_hashes"` // distinct interleavings
	Faults      map[string]int    `json:"faults"`
	Probes      map[string]int    `json:"probes"`
	SimSecs     float64           `json:"sim_secs"`
	Steps       int               `json:"steps"`
	Violations  []violationOut    `json:"violations"`
	Infra       []string          `json:"infra"`
	Samples     []json.RawMessage `json:"samples"`
	WallS       float64           `json:"wall_s"`
	RunHashes   map[string]string `json:"run_hashes,omitempty"` // index -> trace+sched hash (determinism self-test)
	NextIndex   int               `json:"next_index"`
}

type violationOut struct {
	Plan *Plan       `json:"plan"`
	Viol []Violation `json:"viol"`
	Log  []string    `json:"log"`
}

func envInt(name string, def int) int {
	if v := os.Getenv(name); v != "" {
		if n, err := strconv.Atoi(v); err == nil {
			return n
		}
	}
	return def
}

// runPlan executes one plan in a fresh bubble and converts harness trouble into Result.Infra.
func runPlan(t *testing.T, def *PropDef, p *Plan) (res *Result) {
	defer func() {
		if r := recover(); r != nil {
			if res != nil && res.Infra == "" && strings.Contains(fmt.Sprint(r), "blocked goroutines remain") {
				// The run itself completed. What remains are connections the service never released
				// (performIDPRequest does not close the body of a non-200 answer, so that connection's
				// read/write loops stay parked). Not a property of this task; recorded as a probe.
				if res.Probes == nil {
					res.Probes = map[string]int{}
				}
				res.Probes["runs-ending-with-connections-leaked-by-the-service"]++
				return
			}
			buf := make([]byte, 1<<20)
			n := runtime.Stack(buf, true)
			res = &Result{Infra: fmt.Sprintf("harness panic: %v\n%s\nALL GOROUTINES:\n%s", r, debug.Stack(), filterStacks(string(buf[:n])))}
		}
	}()
	watchBegin(p)
	defer watchEnd()
	if def.NoBubble {
		return def.Run(p)
	}
	var outer any
	t.Run("b", func(t2 *testing.T) {
		// a subtest per bubble: a race report fails (and stops) only the subtest, not the worker loop
		defer func() {
			if r := recover(); r != nil {
				outer = r
			}
		}()
		synctest.Test(t2, func(*testing.T) {
			defer func() {
				if r := recover(); r != nil {
					res = &Result{Infra: fmt.Sprintf("harness panic in bubble: %v\n%s", r, debug.Stack())}
				}
			}()
			res = def.Run(p)
		})
	})
	if outer != nil {
		panic(outer)
	}
	if res == nil {
		res = &Result{Infra: "run produced no result"}
	}
	return res
}

// noteCurrentPlan records the plan about to run next to the result file: if the Go runtime kills the process
// (a fatal error cannot be recovered), the driver knows which plan did it.
func noteCurrentPlan(outPath string, p *Plan, k int) {
	if outPath == "" || !(p.Prop == "C12" || p.Prop == "C15" || p.Prop == "C16") {
		return // only the properties for which a death of the worker is a verdict need it (one file write per plan)
	}
	b, err := json.Marshal(map[string]any{"plan": p, "k": k})
	if err == nil {
		_ = os.WriteFile(outPath+".cur", b, 0o644)
	}
}

var curT *testing.T

func TestSim(t *testing.T) {
	curT = t
	initRaceLog()
	raceCtl := ""
	if raceLogPath != "" {
		raceCtl = raceControls(t)
	}
	prop := os.Getenv("VERIF_PROP")
	def := props[prop]
	if def == nil {
		t.Fatalf("unknown property %q", prop)
	}
	outPath := os.Getenv("VERIF_OUT")
	out := &workerOut{Worker: envInt("VERIF_WORKER", 0), Prop: prop, Faults: map[string]int{}, Probes: map[string]int{}}
	start := time.Now()
	if raceCtl != "" {
		out.Infra = append(out.Infra, "race-detector control: "+raceCtl)
	}
	write := func() {
		out.WallS = time.Since(start).Seconds()
		b, _ := json.Marshal(out)
		if outPath != "" {
			_ = os.WriteFile(outPath, b, 0o644)
		} else {
			fmt.Println(string(b))
		}
	}

	if prop == "C16" {
		go hangWatch(func(p *Plan, v Violation, stacks string) {
			out.Runs++
			out.Violations = append(out.Violations, violationOut{Plan: p, Viol: []Violation{v}, Log: strings.Split(stacks, "\n")})
			write()
		})
	}

	if planPath := os.Getenv("VERIF_PLAN"); planPath != "" {
		b, err := os.ReadFile(planPath)
		if err != nil {
			t.Fatal(err)
		}
		var plans []*Plan
		if len(b) > 0 && b[0] == '[' {
			if err := json.Unmarshal(b, &plans); err != nil {
				t.Fatal(err)
			}
		} else {
			var p Plan
			if err := json.Unmarshal(b, &p); err != nil {
				t.Fatal(err)
			}
			plans = []*Plan{&p}
		}
		for i, p := range plans {
			noteCurrentPlan(outPath, p, i)
			res := runPlan(t, def, p)
			attachRaces(res)
			out.Runs++
			if res.Infra != "" {
				out.Infra = append(out.Infra, res.Infra)
			}
			out.Violations = append(out.Violations, violationOut{Plan: p, Viol: res.Viol, Log: res.Log})
			out.Hashes = append(out.Hashes, fmt.Sprintf("%016x", res.TraceHash))
			out.SchedHashes = append(out.SchedHashes, fmt.Sprintf("%016x", res.SchedHash))
			if i == 0 {
				out.Faults, out.Probes = res.Faults, res.Probes
				sm, _ := json.Marshal(map[string]any{"log": res.Log, "summary": res.Summary})
				out.Samples = append(out.Samples, sm)
			}
		}
		write()
		return
	}

	base := uint64(envInt("VERIF_SEED", 1))
	worker, nworkers := envInt("VERIF_WORKER", 0), envInt("VERIF_NWORKERS", 1)
	maxRuns := envInt("VERIF_RUNS", 1000)
	budget := time.Duration(envInt("VERIF_BUDGET_S", 30)) * time.Second
	tier := os.Getenv("VERIF_TIER")
	selftest := os.Getenv("VERIF_SELFTEST") != ""
	hashes, shashes := map[uint64]bool{}, map[uint64]bool{}
	seenSig := map[string]bool{}
	if selftest {
		out.RunHashes = map[string]string{}
	}
	offset := envInt("VERIF_OFFSET", 0)
	out.NextIndex = maxRuns
	for idx := offset + worker; idx < maxRuns; idx += nworkers {
		if time.Since(start) > budget {
			out.NextIndex = idx - worker // start of the stripe this worker did not get to
			break
		}
		seed := splitmix(base*0x100000001b3 + uint64(idx))
		p := def.Gen(NewRng(seed), tier, idx)
		p.Prop, p.Seed, p.Index, p.Tier = prop, seed, idx, tier
		t0 := time.Now()
		noteCurrentPlan(outPath, p, 0)
		res := runPlan(t, def, p)
		attachRaces(res)
		if time.Since(t0) > 240*time.Second {
			out.Infra = append(out.Infra, fmt.Sprintf("run %d exceeded the 240 s real-time watchdog", idx))
		}
		out.Runs++
		out.SimSecs += res.SimSecs
		out.Steps += res.Steps
		for k, v := range res.Faults {
			out.Faults[k] += v
		}
		for k, v := range res.Probes {
			out.Probes[k] += v
		}
		if res.Infra != "" {
			if len(out.Infra) < 5 {
				pj, _ := json.Marshal(p)
				out.Infra = append(out.Infra, fmt.Sprintf("run %d: %s plan=%s", idx, res.Infra, pj))
			}
			continue
		}
		if res.Nontrivial {
			out.Nontrivial++
			hashes[res.TraceHash] = true
		}
		shashes[res.SchedHash] = true
		if os.Getenv("VERIF_TRACE") != "" {
			_ = os.WriteFile(filepath.Join(os.Getenv("VERIF_TMP"), fmt.Sprintf("log-%d-%d.txt", idx, os.Getpid())), []byte(strings.Join(res.Log, "\n")), 0o644)
		}
		if selftest {
			out.RunHashes[strconv.Itoa(idx)] = fmt.Sprintf("%016x-%016x-%d", res.TraceHash, res.SchedHash, len(res.Viol))
		}
		// keep one record per signature not seen before in this worker (frequent known findings must not crowd
		// out a new signature)
		fresh := false
		for _, v := range res.Viol {
			if !seenSig[v.Sig] {
				seenSig[v.Sig] = true
				fresh = true
			}
		}
		if fresh && len(out.Violations) < 64 {
			vp := p
			if res.PlanFaults != nil {
				cp := *p
				cp.Faults = res.PlanFaults
				vp = &cp
			}
			out.Violations = append(out.Violations, violationOut{Plan: vp, Viol: res.Viol, Log: res.Log})
		}
		if len(out.Samples) < 2 && res.Nontrivial {
			lg := res.Log
			if len(lg) > 40 {
				lg = lg[:40]
			}
			sm, _ := json.Marshal(map[string]any{"plan": p, "trace": lg, "summary": res.Summary})
			out.Samples = append(out.Samples, sm)
		}
	}
	for h := range hashes {
		out.Hashes = append(out.Hashes, fmt.Sprintf("%016x", h))
	}
	for h := range shashes {
		out.SchedHashes = append(out.SchedHashes, fmt.Sprintf("%016x", h))
	}
	write()
}

// filterStacks keeps the goroutines that belong to a bubble and are blocked.
func filterStacks(all string) string {
	var keep []string
	for _, g := range strings.Split(all, "\n\n") {
		if strings.Contains(g, "synctest bubble") || strings.Contains(g, "durable") {
			if len(g) > 1500 {
				g = g[:1500]
			}
			keep = append(keep, g)
		}
	}
	if len(keep) > 6 {
		keep = keep[:6]
	}
	return strings.Join(keep, "\n\n")
}

// inBubble runs f in a fresh synctest bubble. The end-of-bubble complaint about connections the
// service never released (see runPlan) is tolerated; anything else propagates.
func inBubble(f func()) (leaked bool) {
	completed := false
	defer func() {
		if r := recover(); r != nil {
			if completed && strings.Contains(fmt.Sprint(r), "blocked goroutines remain") {
				leaked = true
				return
			}
			panic(r)
		}
	}()
	var inner, outer any
	var innerStack []byte
	curT.Run("b", func(t2 *testing.T) {
		defer func() {
			if r := recover(); r != nil {
				outer = r
			}
		}()
		synctest.Test(t2, func(*testing.T) {
			defer func() {
				if r := recover(); r != nil {
					inner, innerStack = r, debug.Stack()
				}
			}()
			f()
			completed = true
		})
	})
	if outer != nil {
		panic(outer)
	}
	if inner != nil {
		panic(fmt.Sprintf("%v\n%s", inner, innerStack))
	}
	return false
}

// attachRaces converts race reports written during the run into C16 violations.
func attachRaces(res *Result) {
	d := raceDelta()
	if d == "" {
		return
	}
	sigs, details, harness := parseRaceReports(d)
	for _, s := range sigs {
		res.Viol = append(res.Viol, Violation{"C16", s, details[s]})
	}
	if len(harness) > 0 && res.Infra == "" {
		res.Infra = "race report with simulator frames on both sides (harness bug):\n" + harness[0]
	}
	if strings.Contains(d, "fatal error: concurrent map") {
		res.Viol = append(res.Viol, Violation{"C16", "fatal-concurrent-map-access", d})
	}
}
