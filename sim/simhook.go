//go:build verif

package verifsim

import (
	"fmt"
	"os"
	"runtime"
	"strconv"
	"time"

	"github.com/istio-ecosystem/authservice/internal/simsync"
)

// Hooks for instrumented builds: every simsync.Yield in a rewritten authservice file becomes a
// scheduling point of the current simulator; goroutines started by rewritten code become tasks.

var dbgUnreg = os.Getenv("VERIF_DBG_UNREG") != ""

var hookSim *Sim
var posNames [4096]string

func init() {
	for i := range posNames {
		posNames[i] = "L" + strconv.Itoa(i)
	}
}

//go:norace
func hookYield(pos int) {
	s := hookSim
	if s == nil {
		return
	}
	if !s.On {
		if pos < 0 {
			// a simulator mutex is spinning while the scheduler is off (sequential phase): the holder runs in
			// another goroutine right now. Block durably for a fake microsecond so that the holder can finish;
			// a lock that is never released still exhausts the spin budget and is reported.
			time.Sleep(time.Microsecond)
		}
		return
	}
	name := "Lk"
	if pos >= 0 && pos < len(posNames) {
		name = posNames[pos]
	}
	// identity by goroutine: a goroutine of instrumented code that was woken by a timer, a channel or a file event
	// (the CA watcher) runs while "current task" still names whoever ran before it
	t := s.taskOfGoroutine(goid())
	if t == nil {
		if dbgUnreg {
			buf := make([]byte, 3000)
			n := runtime.Stack(buf, false)
			fmt.Fprintf(os.Stderr, "UNREGISTERED goroutine at %s (cur=%v):\n%s\n", name, s.cur != nil && true, buf[:n])
		}
		t = s.cur
	}
	s.YieldAs(t, name)
	s.cur = t
}

// installHooks binds the simsync hooks to sim for the duration of a run.
func installHooks(s *Sim) {
	takeBgPanics()
	setHookSim(s)
	simsync.Deadlocks = 0
	simsync.SetHooks(hookYield, hookGo)
}

//go:norace
func setHookSim(s *Sim) { hookSim = s }

//go:norace
func getHookSim() *Sim { return hookSim }

// bgPanics collects panics of goroutines started by instrumented code (a simulator mutex that is never
// acquired panics after its step budget; in the real service that goroutine would hang for ever).
var bgPanics []string

//go:norace
func noteBgPanic(s string) { bgPanics = append(bgPanics, s) }

//go:norace
func takeBgPanics() []string { p := bgPanics; bgPanics = nil; return p }

func hookGo(f func()) {
	g := func() {
		defer func() {
			if r := recover(); r != nil {
				noteBgPanic(fmt.Sprint(r))
			}
		}()
		f()
	}
	s := getHookSim()
	if s == nil {
		go g()
		return
	}
	if !s.isOn() {
		// started in a sequential phase (e.g. a file watcher started by the first request): it runs at once, but it
		// is a task with an identity of its own for the concurrent phases that follow
		t := s.NewTask(s.nextBg(), "bg")
		go func() {
			setGid(t, goid())
			g()
		}()
		return
	}
	t := s.NewTask(s.nextBg(), "bg")
	parent := s.Cur()
	s.Go(t, g)
	s.SetCur(parent)
}

func removeHooks() {
	setHookSim(nil)
	simsync.SetHooks(nil, nil)
}
