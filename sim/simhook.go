//go:build verif

package verifsim

import (
	"strconv"

	"github.com/istio-ecosystem/authservice/internal/simsync"
)

// Hooks for instrumented builds: every simsync.Yield in a rewritten authservice file becomes a
// scheduling point of the current simulator; goroutines started by rewritten code become tasks.

var hookSim *Sim
var posNames [4096]string

func init() {
	for i := range posNames {
		posNames[i] = "L" + strconv.Itoa(i)
	}
}

//go:norace
func hookYield(pos int) {
	s := hookSim
	if s == nil || !s.On {
		return
	}
	name := "Lk"
	if pos >= 0 && pos < len(posNames) {
		name = posNames[pos]
	}
	t := s.cur
	s.Yield(name)
	s.cur = t
}

// installHooks binds the simsync hooks to sim for the duration of a run.
func installHooks(s *Sim) {
	setHookSim(s)
	simsync.Deadlocks = 0
	simsync.SetHooks(hookYield, hookGo)
}

//go:norace
func setHookSim(s *Sim) { hookSim = s }

//go:norace
func getHookSim() *Sim { return hookSim }

func hookGo(f func()) {
	s := getHookSim()
	if s == nil || !s.isOn() {
		go f()
		return
	}
	t := s.NewTask(s.nextBg(), "bg")
	parent := s.Cur()
	s.Go(t, f)
	s.SetCur(parent)
}

func removeHooks() {
	setHookSim(nil)
	simsync.SetHooks(nil, nil)
}
