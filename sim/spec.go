//go:build verif

package verifsim

import (
	"encoding/json"
	"fmt"
	"strings"
)

// WorldSpec is the plain-data description of a simulated deployment; it is part of the plan (and of
// the replay file) and is turned into a configuration *file* that the real loader reads.

type TokenCfg struct {
	Header   string `json:"header"`
	Preamble string `json:"preamble,omitempty"`
}

type LogoutCfg struct {
	Path        string `json:"path"`
	RedirectURI string `json:"redirect_uri,omitempty"` // empty + discovery => discovered
}

type MatchSpec struct {
	Header   string `json:"header"`
	Equality string `json:"equality,omitempty"`
	Prefix   string `json:"prefix,omitempty"`
}

type FilterSpec struct {
	Chain         string     `json:"chain"`
	Match         *MatchSpec `json:"match,omitempty"`
	MocksBefore   int        `json:"mocks_before,omitempty"` // allow-mocks placed before the OIDC filter
	IdP           int        `json:"idp"`
	AppHost       string     `json:"app_host"` // host the browser uses, e.g. app-a.test
	CallbackPath  string     `json:"callback_path"`
	CallbackPort  string     `json:"callback_port,omitempty"`  // "", "443"
	CallbackQuery string     `json:"callback_query,omitempty"` // own query of the redirect URI, e.g. "?tenant=1"
	ClientID      string     `json:"client_id"`
	ClientSecret  string     `json:"client_secret"`
	SecretRef     string     `json:"secret_ref,omitempty"` // k8s Secret name instead of inline secret
	SecretRefNS   string     `json:"secret_ref_ns,omitempty"`
	Scopes        []string   `json:"scopes,omitempty"`
	CookiePrefix  string     `json:"cookie_prefix,omitempty"`
	IDToken       TokenCfg   `json:"id_token"`
	AccessToken   *TokenCfg  `json:"access_token,omitempty"`
	Logout        *LogoutCfg `json:"logout,omitempty"`
	AbsTimeout    int        `json:"abs_timeout,omitempty"`
	IdleTimeout   int        `json:"idle_timeout,omitempty"`
	Store         string     `json:"store"`               // memory | redis | redis2
	Discovery     bool       `json:"discovery,omitempty"` // endpoints via configuration_uri
	JWKSFetch     bool       `json:"jwks_fetch,omitempty"`
	JWKSInterval  int        `json:"jwks_interval,omitempty"`
	// TLS towards the IdP
	CAInline   string `json:"ca_inline,omitempty"`
	CAFile     string `json:"ca_file,omitempty"`
	CARefresh  string `json:"ca_refresh,omitempty"`  // duration, e.g. "60s"
	SkipVerify any    `json:"skip_verify,omitempty"` // bool or string form
}

type StringMatch struct {
	Kind string `json:"kind"` // exact | prefix | suffix | regex
	Val  string `json:"val"`
}

type TriggerRule struct {
	Excluded []StringMatch `json:"excluded,omitempty"`
	Included []StringMatch `json:"included,omitempty"`
}

type WorldSpec struct {
	Filters        []FilterSpec  `json:"filters"`
	TriggerRules   []TriggerRule `json:"trigger_rules,omitempty"`
	AllowUnmatched bool          `json:"allow_unmatched,omitempty"`
	UseOverride    bool          `json:"use_override,omitempty"` // default_oidc_config + oidc_override
	LogLevel       string        `json:"log_level,omitempty"`    // "", error, debug
	// HandlerMode: requests are served by one long-lived oidcHandler per filter instead of through
	// ExtAuthZFilter.Check (component level; single-filter worlds without trigger rules only).
	HandlerMode bool `json:"handler_mode,omitempty"`
	// Replicas: number of service replicas of the deployment (default 1). They load the same configuration
	// file and share the Redis servers; each has its own memory (in-memory store, caches, TLS pool).
	Replicas int `json:"replicas,omitempty"`
	// RedisDownAtBoot names a Redis store kind whose server refuses connections while the service starts (it is
	// back as soon as start-up is over).
	RedisDownAtBoot string    `json:"redis_down_at_boot,omitempty"`
	IdPs            []IdPSpec `json:"idps"`
}

type IdPSpec struct {
	Name      string   `json:"name"`
	Scheme    string   `json:"scheme"` // http | https
	Host      string   `json:"host"`
	PathPfx   string   `json:"path_pfx,omitempty"`
	AuthQuery string   `json:"auth_query,omitempty"` // e.g. "?tenant=a%20b"
	Knobs     IdPKnobs `json:"knobs"`
	ServerCA  int      `json:"server_ca,omitempty"` // which CA signs the server certificate (https)
	// SharedDisc: several providers (tenants/policies) share one host and ONE discovery path; the document is
	// selected by the query (?p=<name>), as e.g. Azure AD B2C does.
	SharedDisc bool `json:"shared_disc,omitempty"`
}

func (f *FilterSpec) CallbackURI() string {
	h := f.AppHost
	if f.CallbackPort != "" {
		h += ":" + f.CallbackPort
	}
	return "https://" + h + f.CallbackPath + f.CallbackQuery
}

func (f *FilterSpec) CookieName() string {
	if f.CookiePrefix != "" {
		return "__Host-" + f.CookiePrefix + "-authservice-session-id-cookie"
	}
	return "__Host-authservice-session-id-cookie"
}

func smJSON(m StringMatch) map[string]any { return map[string]any{m.Kind: m.Val} }

// ConfigJSON renders the configuration file content. idps gives the endpoint URLs; jwks the static
// key documents; redisURIs the addresses of the Redis servers of this process.
func (ws *WorldSpec) ConfigJSON(idps []*IdP, redisURIs map[string]string) string {
	oidcOf := func(f *FilterSpec) map[string]any {
		p := idps[f.IdP]
		o := map[string]any{
			"callback_uri": f.CallbackURI(),
			"client_id":    f.ClientID,
			"id_token":     f.IDToken,
		}
		if f.SecretRef != "" {
			ref := map[string]any{"name": f.SecretRef}
			if f.SecretRefNS != "" {
				ref["namespace"] = f.SecretRefNS
			}
			o["client_secret_ref"] = ref
		} else {
			o["client_secret"] = f.ClientSecret
		}
		if f.Discovery {
			o["configuration_uri"] = p.DiscoveryURL()
			if !f.JWKSFetch {
				// static keys may be combined with discovery
				o["jwks"] = JWKSJSON(p.Published, p.Knobs.JWKSAlg, p.Knobs.JWKSKid)
			} else if f.JWKSInterval > 0 {
				o["jwks_fetcher"] = map[string]any{"periodic_fetch_interval_sec": f.JWKSInterval}
			}
		} else {
			o["authorization_uri"] = p.AuthorizeURL()
			o["token_uri"] = p.TokenURL()
			if f.JWKSFetch {
				jf := map[string]any{"jwks_uri": p.JWKSURL()}
				if f.JWKSInterval > 0 {
					jf["periodic_fetch_interval_sec"] = f.JWKSInterval
				}
				o["jwks_fetcher"] = jf
			} else {
				o["jwks"] = JWKSJSON(p.Published, p.Knobs.JWKSAlg, p.Knobs.JWKSKid)
			}
		}
		if f.Scopes != nil {
			o["scopes"] = f.Scopes
		}
		if f.CookiePrefix != "" {
			o["cookie_name_prefix"] = f.CookiePrefix
		}
		if f.AccessToken != nil {
			o["access_token"] = f.AccessToken
		}
		if f.Logout != nil {
			o["logout"] = f.Logout
		}
		if f.AbsTimeout > 0 {
			o["absolute_session_timeout"] = f.AbsTimeout
		}
		if f.IdleTimeout > 0 {
			o["idle_session_timeout"] = f.IdleTimeout
		}
		if strings.HasPrefix(f.Store, "redis") {
			o["redis_session_store_config"] = map[string]any{"server_uri": redisURIs[f.Store]}
		}
		if f.CAInline != "" {
			o["trusted_certificate_authority"] = f.CAInline
		}
		if f.CAFile != "" {
			o["trusted_certificate_authority_file"] = f.CAFile
		}
		if f.CARefresh != "" {
			o["trusted_certificate_authority_refresh_interval"] = f.CARefresh
		}
		if f.SkipVerify != nil {
			o["skip_verify_peer_cert"] = f.SkipVerify
		}
		return o
	}

	cfg := map[string]any{
		"listen_address": "127.0.0.1",
		"listen_port":    10003,
	}
	cfg["log_level"] = "critical"
	if ws.LogLevel != "" {
		cfg["log_level"] = ws.LogLevel
	}
	if ws.AllowUnmatched {
		cfg["allow_unmatched_requests"] = true
	}
	var rules []any
	for _, r := range ws.TriggerRules {
		rm := map[string]any{}
		var ex, in []any
		for _, m := range r.Excluded {
			ex = append(ex, smJSON(m))
		}
		for _, m := range r.Included {
			in = append(in, smJSON(m))
		}
		if ex != nil {
			rm["excluded_paths"] = ex
		}
		if in != nil {
			rm["included_paths"] = in
		}
		rules = append(rules, rm)
	}
	if rules != nil {
		cfg["trigger_rules"] = rules
	}
	var chains []any
	_ = fmt.Sprint
	// default_oidc_config + oidc_override: the default carries the full configuration with a few
	// fields deliberately wrong; the override corrects exactly those (field-by-field merge).
	useOverride := ws.UseOverride && len(ws.Filters) == 1
	// Several filters: default_oidc_config holds what ALL filters have in common (plus deliberately wrong values
	// for the settings every filter sets itself); each chain's oidc_override holds the rest of that filter's
	// configuration. Whatever the loader's merge gets wrong between chains shows up as behaviour that deviates
	// from the filter's own specification.
	var multiOv []map[string]any
	if ws.UseOverride && len(ws.Filters) > 1 {
		fulls := make([]map[string]any, len(ws.Filters))
		for i := range ws.Filters {
			fulls[i] = oidcOf(&ws.Filters[i])
		}
		js := func(v any) string { b, _ := json.Marshal(v); return string(b) }
		def := map[string]any{}
		for k, v := range fulls[0] {
			same := true
			for _, o := range fulls[1:] {
				if ov, ok := o[k]; !ok || js(ov) != js(v) {
					same = false
				}
			}
			if same {
				def[k] = v
			}
		}
		for _, k := range []string{"client_id", "callback_uri"} {
			if _, common := def[k]; !common {
				def[k] = map[string]string{"client_id": "default-client", "callback_uri": "https://default.test/default-cb"}[k]
			}
		}
		for i := range fulls {
			o := map[string]any{}
			for k, v := range fulls[i] {
				if dv, ok := def[k]; !ok || js(dv) != js(v) {
					o[k] = v
				}
			}
			multiOv = append(multiOv, o)
		}
		cfg["default_oidc_config"] = def
	}
	var ov map[string]any
	if useOverride {
		f := &ws.Filters[0]
		def := oidcOf(f)
		ov = map[string]any{"client_id": def["client_id"], "callback_uri": def["callback_uri"]}
		def["client_id"] = "default-client"
		def["callback_uri"] = "https://default.test/default-cb"
		if f.AbsTimeout > 0 {
			ov["absolute_session_timeout"] = f.AbsTimeout
			def["absolute_session_timeout"] = 1
		}
		if f.SecretRef == "" {
			ov["client_secret"] = f.ClientSecret
			def["client_secret"] = "default-secret-never-used"
		}
		cfg["default_oidc_config"] = def
	}
	for i := range ws.Filters {
		f := &ws.Filters[i]
		var filters []any
		for k := 0; k < f.MocksBefore; k++ {
			filters = append(filters, map[string]any{"mock": map[string]any{"allow": true}})
		}
		if multiOv != nil {
			filters = append(filters, map[string]any{"oidc_override": multiOv[i]})
		} else if useOverride {
			filters = append(filters, map[string]any{"oidc_override": ov})
		} else {
			filters = append(filters, map[string]any{"oidc": oidcOf(f)})
		}
		ch := map[string]any{"name": f.Chain, "filters": filters}
		if f.Match != nil {
			m := map[string]any{"header": f.Match.Header}
			if f.Match.Equality != "" {
				m["equality"] = f.Match.Equality
			} else {
				m["prefix"] = f.Match.Prefix
			}
			ch["match"] = m
		}
		chains = append(chains, ch)
	}
	cfg["chains"] = chains
	b, err := json.Marshal(cfg)
	if err != nil {
		panic(err)
	}
	return string(b)
}
