//go:build verif

package verifsim

import (
	"os"
	"runtime"
	"sync/atomic"
	"time"
)

// Stalled provider answers. A stalled answer is one that does not arrive for as long as the scenario wants:
// the provider's handler blocks in a read of a real OS pipe. That goroutine is then blocked outside the
// simulator's knowledge (not "durably"), which freezes the fake clock; the scenario therefore runs the other
// requests sequentially, with the scheduler off, so that nothing needs the clock. If one of those requests
// waits - directly or through a lock - for the stalled answer, nothing in the bubble can run any more; a
// watchdog OUTSIDE the bubble (real time) then releases the stalled answer, the run completes normally, and
// the scenario reports that the request only got through once the other request's answer had arrived.

const stallPatience = 15 * time.Second // real time; only ever waited out by a run that violates the property

type wdReq struct {
	patience time.Duration
	done     *atomic.Bool
	fire     func()
}

var wdCh = make(chan *wdReq, 64) // created at package initialisation: not a bubbled channel

// outsideCh carries work that must not run on a goroutine of a bubble (anything that starts goroutines which
// then block in real I/O, e.g. restarting a miniredis server: its accept loop would belong to the bubble).
var outsideCh = make(chan func(), 16)

// runOutside executes f on a goroutine outside any bubble and waits for it (real time, short).
func runOutside(f func()) {
	var done atomic.Bool
	outsideCh <- func() {
		defer done.Store(true)
		f()
	}
	for !done.Load() {
		runtime.Gosched()
	}
}

// startWatchdogService runs outside any bubble (called from the process set-up).
func startWatchdogService() {
	go func() {
		for f := range outsideCh {
			f()
		}
	}()
	go func() {
		for r := range wdCh {
			go func(r *wdReq) {
				deadline := time.Now().Add(r.patience)
				for time.Now().Before(deadline) {
					if r.done.Load() {
						return
					}
					time.Sleep(20 * time.Millisecond)
				}
				if !r.done.Load() {
					r.fire()
				}
			}(r)
		}
	}()
}

type stallCtl struct {
	r, w     *os.File
	sig      chan struct{} // bubbled: a handler announces that it is about to stall
	stalled  atomic.Int32
	released atomic.Int32
	expired  atomic.Bool // the watchdog had to release the answer
}

func (w *World) stallInit() {
	if w.stall != nil {
		return
	}
	r, wr, err := os.Pipe()
	if err != nil {
		panic(err)
	}
	w.stall = &stallCtl{r: r, w: wr, sig: make(chan struct{}, 8)}
}

// stallHere blocks the calling provider handler until the scenario (or the watchdog) releases it.
func (w *World) stallHere() {
	if w.stall == nil {
		return // only a scenario that has armed the watchdog (stallInit) may stall an answer
	}
	w.countFault("provider-answer-stalled")
	w.stall.stalled.Add(1)
	select {
	case w.stall.sig <- struct{}{}:
	default:
	}
	buf := make([]byte, 1)
	_, _ = w.stall.r.Read(buf)
}

// releaseStalls lets every stalled handler continue. Safe from outside the bubble.
func (s *stallCtl) releaseAll() {
	for s.released.Load() < s.stalled.Load() {
		s.released.Add(1)
		_, _ = s.w.Write([]byte{1})
	}
}

func (w *World) stallClose() {
	if w.stall != nil {
		w.stall.releaseAll()
		_ = w.stall.w.Close()
		_ = w.stall.r.Close()
	}
}
