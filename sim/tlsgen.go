//go:build verif

package verifsim

import (
	"crypto/ecdsa"
	"crypto/elliptic"
	"crypto/rand"
	"crypto/tls"
	"crypto/x509"
	"crypto/x509/pkix"
	"encoding/pem"
	"math/big"
	"sync"
	"time"
)

// Test PKI, generated once per process outside any bubble. Validity 1990-2100 because every bubble's
// clock starts at 2000-01-01.

type testCA struct {
	Name string
	Cert *x509.Certificate
	Key  *ecdsa.PrivateKey
	PEM  string
}

type testPKI struct {
	mu     sync.Mutex
	CAs    []*testCA                    // CA1, CA2, CA3(unknown to every configuration)
	leaves map[string]*tls.Certificate  // "<ca-index>/<host>"
	parsed map[string]*x509.Certificate // same key
}

var pki *testPKI

func initPKI() {
	pki = &testPKI{leaves: map[string]*tls.Certificate{}, parsed: map[string]*x509.Certificate{}}
	nb, na := time.Date(1990, 1, 1, 0, 0, 0, 0, time.UTC), time.Date(2100, 1, 1, 0, 0, 0, 0, time.UTC)
	for i, n := range []string{"Sim CA 1", "Sim CA 2", "Sim CA 3 (untrusted)"} {
		k, _ := ecdsa.GenerateKey(elliptic.P256(), rand.Reader)
		tpl := &x509.Certificate{SerialNumber: big.NewInt(int64(100 + i)), Subject: pkix.Name{CommonName: n}, NotBefore: nb, NotAfter: na,
			IsCA: true, BasicConstraintsValid: true, KeyUsage: x509.KeyUsageCertSign | x509.KeyUsageDigitalSignature}
		der, err := x509.CreateCertificate(rand.Reader, tpl, tpl, &k.PublicKey, k)
		if err != nil {
			panic(err)
		}
		c, _ := x509.ParseCertificate(der)
		pki.CAs = append(pki.CAs, &testCA{Name: n, Cert: c, Key: k, PEM: string(pem.EncodeToMemory(&pem.Block{Type: "CERTIFICATE", Bytes: der}))})
	}
}

// leaf returns a server certificate for host issued by CA ca (created on first use, outside bubbles
// is not required: pure computation).
func (p *testPKI) leaf(ca int, host string) (*tls.Certificate, *x509.Certificate) {
	p.mu.Lock()
	defer p.mu.Unlock()
	key := string(rune('0'+ca)) + "/" + host
	if c, ok := p.leaves[key]; ok {
		return c, p.parsed[key]
	}
	k, _ := ecdsa.GenerateKey(elliptic.P256(), rand.Reader)
	tpl := &x509.Certificate{SerialNumber: big.NewInt(int64(1000 + len(p.leaves))), Subject: pkix.Name{CommonName: host}, DNSNames: []string{host},
		NotBefore: time.Date(1990, 1, 1, 0, 0, 0, 0, time.UTC), NotAfter: time.Date(2100, 1, 1, 0, 0, 0, 0, time.UTC),
		KeyUsage: x509.KeyUsageDigitalSignature, ExtKeyUsage: []x509.ExtKeyUsage{x509.ExtKeyUsageServerAuth}}
	der, err := x509.CreateCertificate(rand.Reader, tpl, p.CAs[ca].Cert, &k.PublicKey, p.CAs[ca].Key)
	if err != nil {
		panic(err)
	}
	c := &tls.Certificate{Certificate: [][]byte{der}, PrivateKey: k}
	parsed, _ := x509.ParseCertificate(der)
	p.leaves[key], p.parsed[key] = c, parsed
	return c, parsed
}
