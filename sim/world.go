//go:build verif

package verifsim

import (
	"context"
	"crypto/tls"
	"errors"
	"fmt"
	"io"
	"net/http"
	"os"
	"path/filepath"
	"runtime/debug"
	"sort"
	"strconv"
	"strings"
	"sync"
	"sync/atomic"
	"time"

	"github.com/alicebob/miniredis/v2"
	redisserver "github.com/alicebob/miniredis/v2/server"
	corev3 "github.com/envoyproxy/go-control-plane/envoy/config/core/v3"
	envoy "github.com/envoyproxy/go-control-plane/envoy/service/auth/v3"
	"github.com/lestrrat-go/jwx/v2/jwk"
	"github.com/tetratelabs/telemetry"
	"github.com/tetratelabs/telemetry/function"
	"google.golang.org/grpc"
	apierrors "k8s.io/apimachinery/pkg/api/errors"
	"sigs.k8s.io/controller-runtime/pkg/client"
	"sigs.k8s.io/controller-runtime/pkg/client/fake"
	"sigs.k8s.io/controller-runtime/pkg/client/interceptor"

	configv1 "github.com/istio-ecosystem/authservice/config/gen/go/v1"
	oidcv1 "github.com/istio-ecosystem/authservice/config/gen/go/v1/oidc"
	"github.com/istio-ecosystem/authservice/internal"
	"github.com/istio-ecosystem/authservice/internal/authz"
	"github.com/istio-ecosystem/authservice/internal/k8s"
	"github.com/istio-ecosystem/authservice/internal/oidc"
	"github.com/istio-ecosystem/authservice/internal/server"
)

// ---------------------------------------------------------------------------------------------
// process environment (created once, outside any bubble)
// ---------------------------------------------------------------------------------------------

type procEnv struct {
	dir     string
	ecKeys  []*SignKey
	rsaKeys []*SignKey
	redis   map[string]*miniredis.Miniredis // "redis", "redis2"
	logger  telemetry.Logger
}

var penv *procEnv

func initProcEnv() {
	dir, err := os.MkdirTemp(os.Getenv("VERIF_TMP"), "sim-")
	if err != nil {
		panic(err)
	}
	penv = &procEnv{dir: dir, redis: map[string]*miniredis.Miniredis{}}
	for i := 0; i < 6; i++ {
		penv.ecKeys = append(penv.ecKeys, newECKey(fmt.Sprintf("ec-%d", i)))
	}
	penv.rsaKeys = []*SignKey{newRSAKey("rsa-0"), newRSAKey("rsa-1")}
	for _, n := range []string{"redis", "redis2"} {
		m := miniredis.NewMiniRedis()
		if err := m.Start(); err != nil {
			panic(err)
		}
		penv.redis[n] = m
	}
	// A logger that formats every value (so logging code paths run) and discards the result.
	dbg := os.Getenv("VERIF_DEBUG") != ""
	penv.logger = function.NewLogger(func(level telemetry.Level, msg string, err error, values function.Values) {
		if dbg {
			fmt.Fprintln(os.Stderr, "LOG", level, msg, err, values.FromMethod)
		}
		_, _ = io.WriteString(io.Discard, msg)
		if err != nil {
			_, _ = io.WriteString(io.Discard, err.Error())
		}
		for _, v := range values.FromContext {
			_, _ = fmt.Fprint(io.Discard, v)
		}
		for _, v := range values.FromLogger {
			_, _ = fmt.Fprint(io.Discard, v)
		}
		for _, v := range values.FromMethod {
			_, _ = fmt.Fprint(io.Discard, v)
		}
	})
	installTransport()
	initPKI()
	startWatchdogService()
}

func closeProcEnv() {
	if penv == nil {
		return
	}
	for _, m := range penv.redis {
		m.Close()
	}
	_ = os.RemoveAll(penv.dir)
}

func (e *procEnv) redisURIs() map[string]string {
	// go-redis arms REAL network deadlines (3 s by default) on its connections: on a heavily loaded machine a
	// round trip to the miniredis goroutines of the same process can exceed them, which shows up as a store
	// failure nobody injected (a thorough run under load hit this once). The deployment under test therefore
	// configures generous timeouts in its Redis URIs - a legitimate configuration, and the only real-time
	// dependency of the Redis path.
	const opts = "?dial_timeout=600s&read_timeout=600s&write_timeout=600s&pool_timeout=600s"
	out := map[string]string{}
	for n, m := range e.redis {
		out[n] = "redis://" + m.Addr() + opts
	}
	// a second logical database on the first server (C18: same server, separate keyspaces)
	out["redisdb1"] = "redis://" + e.redis["redis"].Addr() + "/1" + opts
	return out
}

// server / db resolve a store kind of the spec to the miniredis server and its logical database.
func (e *procEnv) server(kind string) *miniredis.Miniredis {
	if kind == "redisdb1" {
		return e.redis["redis"]
	}
	return e.redis[kind]
}

func (e *procEnv) db(kind string) *miniredis.RedisDB {
	m := e.server(kind)
	if m == nil {
		return nil
	}
	if kind == "redisdb1" {
		return m.DB(1)
	}
	return m.DB(0)
}

// ---------------------------------------------------------------------------------------------
// World
// ---------------------------------------------------------------------------------------------

type Fault struct {
	Site string `json:"site"` // store.<Method> | idp.token | idp.jwks | jwks.get | net.dial
	Nth  int    `json:"nth"`  // 1-based occurrence of the site in the run
	Kind string `json:"kind"`
}

type Violation struct {
	Prop   string `json:"prop"`
	Sig    string `json:"sig"`
	Detail string `json:"detail"`
}

type SpyEv struct {
	Seq     int64
	At      time.Time
	Task    int
	Check   *CheckRec
	Filter  int
	Method  string
	SID     string
	Tokens  *oidc.TokenResponse      // argument (Set) or result (Get)
	State   *oidc.AuthorizationState // argument (Set) or result (Get)
	Err     error
	Fault   string
	Applied bool // the real store method was executed
}

type FilterRT struct {
	StaticKeys []*SignKey // keys in the configuration file (static JWKS)
	Spec       *FilterSpec
	Idx        int
	IdP        *IdP
	Cfg        *oidcv1.OIDCConfig // the loaded (merged) configuration object of this filter
}

// ParseAuth / Authorize: the provider's judgement of an authorization request sent by this filter (its own redirect
// URI and scopes, the provider's client id).
func (f *FilterRT) ParseAuth(loc string) *AuthReq {
	return f.IdP.parseAuthAs(loc, f.Spec.CallbackURI(), f.scopesOrEmpty())
}
func (f *FilterRT) Authorize(loc string, browser int) *AuthReq {
	return f.IdP.AuthorizeAs(loc, browser, f.Spec.CallbackURI(), f.scopesOrEmpty())
}
func (f *FilterRT) scopesOrEmpty() []string {
	if f.Spec.Scopes == nil {
		return []string{}
	}
	return f.Spec.Scopes
}

type Replica struct {
	cfgFile  *internal.LocalConfigFile
	cfg      *configv1.Config
	cancel   context.CancelFunc
	ctx      context.Context
	tlsPool  internal.TLSConfigPool
	jwks     *oidc.DefaultJWKSProvider
	sessions oidc.SessionStoreFactoryUnit
	secrets  *k8s.SecretController
	filter   *server.ExtAuthZFilter
	BootErr  error
	cfgs     []*oidcv1.OIDCConfig // this replica's loaded OIDC configs, by filter index
	idx      int                  // 0 = primary; >0 = further replicas of the same deployment
}

type World struct {
	Spec    *WorldSpec
	Sim     *Sim
	Net     *SimNet
	valRng  *Rng
	IdPs    []*IdP
	Filters []*FilterRT
	Rep     *Replica
	Reps    []*Replica       // all replicas of the deployment (Reps[0] == Rep unless it crashed)
	taskRep map[int]*Replica // replica serving the requests of a task (a load balancer without stickiness)
	Lean    bool             // no spying / recording (race build)
	mu      sync.Mutex

	faults      []Fault
	siteCount   map[string]int
	FaultsFired map[string]int
	Probes      map[string]int
	secrets     map[string]string
	Spy         []*SpyEv
	Checks      []*CheckRec
	Viol        []Violation
	active      map[int]*CheckRec
	issuedSIDs  map[string]int // session id -> order of issue
	loggedOut   map[string]int64
	redisSync   time.Time
	start       time.Time
	cfgPath     string
	RedisDown   bool
	// sites records the seam calls of this run in order (for the systematic fault sweep).
	sites            []string
	sessions         map[string]*SessModel
	presented        map[string]bool
	codeDone         map[string]*CheckRec
	pendingDone      []doneMark
	chainSID         map[int]string
	lostReply        map[int]bool
	seenIdent        map[string]string
	handlers         map[*Replica]map[int]authz.Handler
	k8sMode          bool
	K8s              client.Client
	k8sRef           map[string]string // secret name -> value as of the last completed reconcile
	crossFilterKnown bool
	corruptStore     bool
	jwksBusy         bool
	k8sFailNext      int
	downAtBootDone   bool
	k8sInReconcile   bool
	FaultsOff        bool
	stall            *stallCtl
	Boots            int
	evlog            []string
	SimSecs          float64
}

func NewWorld(spec *WorldSpec, schedSeed uint64, policy int, faults []Fault) *World {
	w := &World{Spec: spec, Sim: NewSim(schedSeed, policy), Net: NewSimNet(), valRng: NewRng(schedSeed ^ 0x5eed),
		faults: faults, siteCount: map[string]int{}, FaultsFired: map[string]int{}, Probes: map[string]int{},
		secrets: map[string]string{}, active: map[int]*CheckRec{}, issuedSIDs: map[string]int{}, loggedOut: map[string]int64{},
		presented: map[string]bool{}, lostReply: map[int]bool{}, taskRep: map[int]*Replica{},
		start: time.Now(), redisSync: time.Now()}
	curNet = w.Net
	w.Net.DialFault = func(addr string) error {
		if w.faultAt("net.dial") != "" {
			w.countFault("dial-refused")
			return errors.New("sim: connection refused")
		}
		return nil
	}
	oidc.VerifResetDiscovery()
	for _, m := range penv.redis {
		m.FlushAll()
		m.SetError("")
		m.SetTime(time.Now())
	}
	for i := range spec.IdPs {
		is := &spec.IdPs[i]
		p := NewIdP(w, is.Name, is.Scheme, is.Host)
		p.Path = is.PathPfx
		p.AuthQuery = is.AuthQuery
		p.ServerCA = is.ServerCA
		p.SharedDisc = is.SharedDisc
		p.Knobs = is.Knobs
		// keys: IdP i signs with ecKeys[2i] (active) and may rotate to ecKeys[2i+1]
		// every provider has its own keys: two EC keys (active + rotation target) and, for the first two, an RSA key
		p.Keys = []*SignKey{penv.ecKeys[(2*i)%len(penv.ecKeys)], penv.ecKeys[(2*i+1)%len(penv.ecKeys)]}
		if i < len(penv.rsaKeys) {
			p.Keys = append(p.Keys, penv.rsaKeys[i])
			if is.Knobs.Alg == "RS256" {
				p.Cur = 2
			}
		}
		p.Published = []*SignKey{p.Keys[p.Cur]}
		w.IdPs = append(w.IdPs, p)
	}
	for i := range spec.Filters {
		f := &spec.Filters[i]
		p := w.IdPs[f.IdP]
		// one client registration per IdP in this model: the filter that references it
		p.ClientID, p.ClientSecret, p.RedirectURI = f.ClientID, f.ClientSecret, f.CallbackURI()
		w.Filters = append(w.Filters, &FilterRT{Spec: f, Idx: i, IdP: p, StaticKeys: append([]*SignKey(nil), p.Published...)})
		w.addSecret("client-secret", f.ClientSecret)
	}
	return w
}

// StartNet starts the IdP servers (inside the bubble).
func (w *World) StartNet(tlsFor func(*IdP) any) {
	// providers that share one host are served by one server: their endpoints live under their path
	// prefixes, the discovery document under one path is selected by ?p=<name>
	shared := map[string][]*IdP{}
	for _, p := range w.IdPs {
		if p.SharedDisc {
			shared[p.Host] = append(shared[p.Host], p)
		}
	}
	for host, ps := range shared {
		mux := http.NewServeMux()
		for _, p := range ps {
			mux.Handle(p.Path+"/", p.Handler())
		}
		ps := ps
		mux.HandleFunc("/.well-known/openid-configuration", func(rw http.ResponseWriter, r *http.Request) {
			for _, p := range ps {
				if r.URL.Query().Get("p") == p.Name {
					r2 := r.Clone(r.Context())
					r2.URL.Path = p.Path + "/.well-known/openid-configuration"
					p.Handler().ServeHTTP(rw, r2)
					return
				}
			}
			http.NotFound(rw, r)
		})
		h := host
		if !strings.Contains(h, ":") {
			h += ":80"
		}
		w.Net.Serve(h, mux, nil)
	}
	for _, p := range w.IdPs {
		if p.SharedDisc {
			continue
		}
		host := p.Host
		if !strings.Contains(host, ":") {
			if p.Scheme == "https" {
				host += ":443"
			} else {
				host += ":80"
			}
		}
		if p.Scheme == "https" {
			p := p
			hostOnly := strings.Split(p.Host, ":")[0]
			cfg := &tls.Config{GetCertificate: func(*tls.ClientHelloInfo) (*tls.Certificate, error) {
				c, _ := pki.leaf(p.ServerCA, hostOnly)
				return c, nil
			}}
			w.Net.Serve(host, p.Handler(), cfg)
			continue
		}
		w.Net.Serve(host, p.Handler(), nil)
	}
}

func (w *World) Close() {
	if w.Rep != nil {
		w.Rep.cancel()
	}
	for _, r := range w.Reps {
		if r != w.Rep && r.cancel != nil {
			r.cancel()
		}
	}
	w.stallClose()
	w.Net.Close()
	w.SimSecs = time.Since(w.start).Seconds()
}

func (w *World) addSecret(kind, v string) {
	if v == "" || w.Lean {
		return
	}
	w.mu.Lock()
	w.secrets[v] = kind
	w.mu.Unlock()
}

// The counters below are also reached from IdP handler goroutines that background refreshers
// (jwk.Cache) may wake at the same fake instant, so they are guarded. (Not used in the race build.)
func (w *World) countFault(kind string) {
	w.mu.Lock()
	w.FaultsFired[kind]++
	w.mu.Unlock()
}
func (w *World) probe(name string) {
	w.mu.Lock()
	w.Probes[name]++
	w.mu.Unlock()
}
func (w *World) violate(prop, sig, detail string) {
	w.mu.Lock()
	if len(w.Viol) < 20 {
		w.Viol = append(w.Viol, Violation{prop, sig, detail})
	}
	w.mu.Unlock()
}
func (w *World) logf(format string, a ...any) {
	if w.Lean {
		return
	}
	w.mu.Lock()
	if len(w.evlog) < 400 {
		w.evlog = append(w.evlog, fmt.Sprintf(format, a...))
	}
	w.mu.Unlock()
}

// faultAt counts a seam call and returns the fault kind scheduled for it ("" = none).
func (w *World) faultAt(site string) string {
	if w.Lean {
		return ""
	}
	w.mu.Lock()
	defer w.mu.Unlock()
	w.siteCount[site]++
	n := w.siteCount[site]
	w.sites = append(w.sites, site)
	if w.FaultsOff {
		return "" // "faults stop": from here on every seam behaves
	}
	for _, f := range w.faults {
		if f.Site == site && f.Nth == n {
			if c := w.active[w.taskID()]; c != nil {
				c.Faults = append(c.Faults, site+":"+f.Kind)
			}
			return f.Kind
		}
	}
	return ""
}

func (w *World) taskID() int {
	if t := w.Sim.Cur(); t != nil {
		return t.ID
	}
	return 0
}

func (w *World) noteTokenReq(p *IdP, tr *TokenReq) {
	w.mu.Lock()
	c := w.active[tr.Task]
	w.mu.Unlock()
	if c != nil {
		c.TokenReqs = append(c.TokenReqs, tr)
		if c.Filter >= 0 && w.Filters[c.Filter].IdP != p {
			w.violate("C18", "token-request-sent-to-another-filters-provider", fmt.Sprintf("check #%d is judged by filter %s but its token request went to provider %s", c.N, w.Filters[c.Filter].Spec.Chain, p.Name))
		}
	}
}

// ---------------------------------------------------------------------------------------------
// Boot: the same constructors, in the same order, as cmd/main.go
// ---------------------------------------------------------------------------------------------

func (w *World) WriteConfig() string {
	w.Boots++
	path := filepath.Join(penv.dir, fmt.Sprintf("config-%d.json", os.Getpid()))
	content := w.Spec.ConfigJSON(w.IdPs, penv.redisURIs())
	if err := os.WriteFile(path, []byte(content), 0o600); err != nil {
		panic(err)
	}
	w.cfgPath = path
	return path
}

var errBoot = errors.New("boot failed")

// Boot builds a replica from the configuration file. A boot failure is recorded in Rep.BootErr.
func (w *World) Boot() *Replica {
	r := w.bootReplica(0)
	if r.BootErr == nil {
		// further replicas of the same deployment: same configuration file, same Redis servers, own memory
		w.Reps = []*Replica{r}
		for i := 1; i < w.Spec.Replicas; i++ {
			w.Reps = append(w.Reps, w.bootReplica(i))
		}
		w.Rep = r
	}
	return r
}

func (w *World) bootReplica(idx int) *Replica {
	if w.cfgPath == "" {
		w.WriteConfig()
	}
	r := &Replica{cfgFile: &internal.LocalConfigFile{}, idx: idx}
	if idx == 0 {
		w.Rep = r
	}
	r.ctx, r.cancel = context.WithCancel(context.Background())
	if err := r.cfgFile.FlagSet().Parse([]string{"--config-path", w.cfgPath}); err != nil {
		r.BootErr = err
		return r
	}
	if err := r.cfgFile.Validate(); err != nil {
		r.BootErr = fmt.Errorf("%w: config rejected: %v", errBoot, err)
		return r
	}
	r.cfg = &r.cfgFile.Config
	logging := internal.NewLogSystem(penv.logger, r.cfg)
	if pr, ok := logging.(interface{ PreRun() error }); ok {
		if err := pr.PreRun(); err != nil {
			r.BootErr = err
			return r
		}
	}
	r.tlsPool = internal.NewTLSConfigPool(r.ctx)
	r.jwks = oidc.NewJWKSProvider(r.cfg, r.tlsPool)
	go func() { _ = r.jwks.ServeContext(r.ctx) }()
	// let the service goroutine run up to its blocking point before anything else happens (in the bubble
	// the clock only moves once every goroutine is blocked), as in a deployment where it starts long
	// before the first request; this also keeps the start-up order deterministic
	time.Sleep(time.Microsecond)
	r.sessions = oidc.NewSessionStoreFactory(r.cfg)
	var downSrv *miniredis.Miniredis
	if w.Spec.RedisDownAtBoot != "" && !w.downAtBootDone {
		w.downAtBootDone = true
		if downSrv = penv.server(w.Spec.RedisDownAtBoot); downSrv != nil {
			runOutside(downSrv.Close)
			w.countFault("redis-unreachable-at-start-up")
		}
	}
	err := r.sessions.PreRun()
	if downSrv != nil {
		var rerr error
		runOutside(func() { rerr = downSrv.Restart() })
		if rerr != nil {
			panic("sim: cannot restart miniredis: " + rerr.Error())
		}
	}
	if err != nil {
		r.BootErr = fmt.Errorf("%w: sessions: %v", errBoot, err)
		return r
	}
	// Bind loaded OIDC configs to filter specs (by chain order).
	i := 0
	for _, ch := range r.cfg.Chains {
		for _, f := range ch.Filters {
			if o := f.GetOidc(); o != nil && i < len(w.Filters) {
				if idx == 0 {
					w.Filters[i].Cfg = o
				}
				r.cfgs = append(r.cfgs, o)
				i++
			}
		}
	}
	// Kubernetes client-secret references: the controller as the start-up wiring builds it, with the
	// (fake) API client injected the way PreRun would have obtained it in-cluster.
	needK8s := false
	for _, f := range w.Spec.Filters {
		if f.SecretRef != "" {
			needK8s = true
		}
	}
	if needK8s {
		if w.K8s == nil {
			// the API server: a fake client whose reads the simulator can fail while the controller reconciles
			w.K8s = fake.NewClientBuilder().WithInterceptorFuncs(interceptor.Funcs{
				Get: func(ctx context.Context, c client.WithWatch, key client.ObjectKey, obj client.Object, opts ...client.GetOption) error {
					if w.k8sInReconcile && w.k8sFailNext > 0 {
						w.k8sFailNext--
						w.countFault("k8s-api-read-error")
						return apierrors.NewServiceUnavailable("sim: the API server is unavailable")
					}
					return c.Get(ctx, key, obj, opts...)
				},
			}).Build()
		}
		r.secrets = k8s.NewSecretController(r.cfg)
		if err := r.secrets.VerifSetup("default", w.K8s); err != nil {
			r.BootErr = fmt.Errorf("%w: secret controller: %v", errBoot, err)
			return r
		}
		w.k8sMode = true
	}
	var fac oidc.SessionStoreFactory = r.sessions
	var jw oidc.JWKSProvider = r.jwks
	if !w.Lean {
		fac = &spyFactory{w: w, inner: r.sessions, rep: r}
		jw = &spyJWKS{w: w, inner: r.jwks}
	} else {
		fac = &yieldFactory{w: w, inner: r.sessions}
		jw = &gateJWKS{w: w, inner: r.jwks}
	}
	r.filter = server.NewExtAuthZFilter(r.cfg, r.tlsPool, jw, fac)
	if w.Spec.HandlerMode && idx == 0 {
		w.buildSharedHandlers()
	}
	return r
}

// Crash abandons the replica (memory is lost) and boots a new one against the same durable state.
func (w *World) CrashRestart() {
	if w.Rep != nil {
		w.Rep.cancel()
	}
	for _, r := range w.Reps {
		if r != w.Rep && r.cancel != nil {
			r.cancel() // the whole deployment restarts
		}
	}
	w.countFault("crash-restart")
	oidc.VerifResetDiscovery()
	w.Boot()
}

// ---------------------------------------------------------------------------------------------
// Clock
// ---------------------------------------------------------------------------------------------

func (w *World) syncRedis() {
	now := time.Now()
	d := now.Sub(w.redisSync)
	if d > 0 {
		for _, m := range penv.redis {
			m.FastForward(d)
			m.SetTime(now)
		}
		w.redisSync = now
	}
}

func (w *World) Advance(d time.Duration) {
	t := w.Sim.Cur()
	time.Sleep(d)
	w.Sim.SetCur(t)
	w.syncRedis()
}

// ---------------------------------------------------------------------------------------------
// Store / JWKS seams: spy + fault + yield
// ---------------------------------------------------------------------------------------------

type spyFactory struct {
	w     *World
	inner oidc.SessionStoreFactory
	rep   *Replica
}

func (f *spyFactory) Get(cfg *oidcv1.OIDCConfig) oidc.SessionStore {
	st := f.inner.Get(cfg)
	if st == nil {
		return nil
	}
	idx := -1
	for _, fr := range f.w.Filters {
		if fr.Cfg == cfg {
			idx = fr.Idx
		}
	}
	if f.rep != nil {
		for i, c := range f.rep.cfgs {
			if c == cfg {
				idx = i
			}
		}
	}
	return &spyStore{w: f.w, inner: st, filter: idx}
}

type spyStore struct {
	w      *World
	inner  oidc.SessionStore
	filter int
}

func (s *spyStore) call(ctx context.Context, method, sid string, fn func() error) *SpyEv {
	w := s.w
	task := w.taskOf(ctx)
	w.Sim.YieldAs(task, "store:"+method)
	w.Sim.SetCur(task)
	w.syncRedis()
	ev := &SpyEv{Seq: w.Sim.Tick(), At: time.Now(), Filter: s.filter, Method: method, SID: sid}
	if task != nil {
		ev.Task = task.ID
		ev.Check = w.active[task.ID]
	}
	ev.Fault = w.faultAt("store." + method)
	switch {
	case ev.Fault == "err-before":
		w.countFault("store-err-before")
		ev.Err = errors.New("sim: injected store failure (before effect)")
	case ev.Fault == "err-after":
		w.countFault("store-err-after")
		_ = fn()
		ev.Applied = true
		ev.Err = errors.New("sim: injected store failure (after effect)")
	case ev.Fault == "redis-down":
		// the Redis server fails every command for the duration of this store call (memory store: plain error)
		w.countFault("redis-down")
		m := penv.server(w.storeKind(s.filter))
		if m == nil {
			ev.Err = errors.New("sim: injected store failure (before effect)")
			break
		}
		// (every data command is refused the way a server out of memory refuses it; MULTI itself is answered +OK and
		// the transaction aborts at EXEC. An error for MULTI - what miniredis' SetError gives - makes go-redis
		// abandon the pipeline with replies still on their way: whether it notices them when it puts the
		// connection back depends on real time, and a connection that went back "clean" is one reply behind
		// from then on.)
		var n, failed atomic.Int64
		m.Server().SetPreHook(oomHook(m.Server(), 1, &n, &failed))
		ev.Err = fn()
		m.Server().SetPreHook(nil)
		ev.Applied = true
	case ev.Fault == "ctx-cancel":
		if ev.Check != nil {
			ev.Check.Faults = ev.Check.Faults[:len(ev.Check.Faults)-1] // not a failure of the call itself
			ev.Check.cancelNow(w)
		}
		ev.Err = fn()
		ev.Applied = true
	case strings.HasPrefix(ev.Fault, "redis-torn:"):
		// the Redis server starts refusing commands BETWEEN two commands of this store call (out of memory, MISCONF
		// after a failed snapshot, ...): the first k-1 data commands are executed, every later one is answered with
		// an error on the live connection, so a multi-command write is left torn. Inside MULTI the refused command
		// aborts the transaction, as in Redis. The memory store has no such intermediate state (one mutex): plain
		// failure before the effect.
		m := penv.server(w.storeKind(s.filter))
		if m == nil {
			w.countFault("store-err-before")
			ev.Err = errors.New("sim: injected store failure (before effect)")
			break
		}
		k, _ := strconv.Atoi(strings.TrimPrefix(ev.Fault, "redis-torn:"))
		var n, failed atomic.Int64
		m.Server().SetPreHook(oomHook(m.Server(), k, &n, &failed))
		ev.Err = fn()
		m.Server().SetPreHook(nil)
		ev.Applied = true
		if failed.Load() > 0 {
			w.countFault("redis-torn-store-call")
			if n.Load()-failed.Load() > 0 {
				w.probe("store-call-left-partially-applied")
			}
		} else if ev.Check != nil {
			ev.Check.Faults = ev.Check.Faults[:len(ev.Check.Faults)-1] // the call had fewer than k commands: nothing failed
		}
	case ev.Fault == "crash-before":
		w.countFault("crash-at-store-call")
		w.Spy = append(w.Spy, ev)
		panic(crashPanic{})
	case ev.Fault == "crash-after":
		w.countFault("crash-at-store-call")
		_ = fn()
		ev.Applied = true
		w.Spy = append(w.Spy, ev)
		panic(crashPanic{})
	case ev.Fault == "evict":
		// the session disappears (Redis eviction / concurrent removal) right before this call
		w.countFault("session-evicted")
		if ev.Check != nil {
			ev.Check.Faults = ev.Check.Faults[:len(ev.Check.Faults)-1] // not a failure of the call itself
			ev.Check.Perturbed = true
		}
		if sid != "" {
			_ = s.inner.RemoveSession(context.Background(), sid)
		}
		ev.Err = fn()
		ev.Applied = true
	case strings.HasPrefix(ev.Fault, "lie:"):
		if ev.Check != nil {
			ev.Check.Faults = ev.Check.Faults[:len(ev.Check.Faults)-1]
		}
		ev.Err = fn()
		ev.Applied = true
	case strings.HasPrefix(ev.Fault, "corrupt:"):
		w.countFault("store-field-corrupt")
		if ev.Check != nil {
			ev.Check.Faults = ev.Check.Faults[:len(ev.Check.Faults)-1]
			ev.Check.Perturbed = true
		}
		w.corruptField(s.filter, sid, strings.TrimPrefix(ev.Fault, "corrupt:"))
		ev.Err = fn()
		ev.Applied = true
	default:
		ev.Err = fn()
		ev.Applied = true
	}
	if ev.Err != nil && (ev.Fault == "" || ev.Fault == "ctx-cancel") && ev.Check != nil && ev.Check.Cancelled && isRedisKind(w.storeKind(s.filter)) {
		ev.Check.failedAfterCancel("store." + method)
	}
	w.Spy = append(w.Spy, ev)
	if ev.Check != nil {
		ev.Check.Spy = append(ev.Check.Spy, ev)
	}
	w.Sim.YieldAs(task, "store:"+method+":ret")
	w.Sim.SetCur(task)
	return ev
}

func (s *spyStore) SetTokenResponse(ctx context.Context, id string, t *oidc.TokenResponse) error {
	ev := s.call(ctx, "SetTokenResponse", id, func() error { return s.inner.SetTokenResponse(ctx, id, t) })
	ev.Tokens = t
	return ev.Err
}
func (s *spyStore) GetTokenResponse(ctx context.Context, id string) (*oidc.TokenResponse, error) {
	var t *oidc.TokenResponse
	ev := s.call(ctx, "GetTokenResponse", id, func() (err error) { t, err = s.inner.GetTokenResponse(ctx, id); return })
	if ev.Err != nil {
		return nil, ev.Err
	}
	if strings.HasPrefix(ev.Fault, "lie:") {
		// a store that answers with malformed / partial data (C15)
		s.w.countFault("store-lie")
		if ev.Check != nil {
			ev.Check.Perturbed = true
		}
		honest := ""
		if t != nil {
			honest = t.IDToken
		}
		switch ev.Fault {
		case "lie:empty":
			t = &oidc.TokenResponse{}
		case "lie:garbage-id":
			t = &oidc.TokenResponse{IDToken: "garbage", AccessToken: "x", RefreshToken: "y"}
		case "lie:dots":
			t = &oidc.TokenResponse{IDToken: "..", RefreshToken: "y"}
		case "lie:b64-junk":
			t = &oidc.TokenResponse{IDToken: "e30.e30.e30"}
		case "lie:payload-not-object":
			t = &oidc.TokenResponse{IDToken: "eyJhbGciOiJub25lIn0.WzFd."}
		case "lie:exp-string":
			t = &oidc.TokenResponse{IDToken: "eyJhbGciOiJub25lIn0." + b64([]byte(`{"exp":"tomorrow","aud":1}`)) + "."}
		case "lie:honest-id-only":
			t = &oidc.TokenResponse{IDToken: honest}
		}
		s.w.corruptStore = true
		ev.Tokens = nil
		return t, nil
	}
	ev.Tokens = t
	return t, nil
}
func (s *spyStore) SetAuthorizationState(ctx context.Context, id string, a *oidc.AuthorizationState) error {
	if a != nil {
		s.w.addSecret("code-verifier", a.CodeVerifier)
	}
	ev := s.call(ctx, "SetAuthorizationState", id, func() error { return s.inner.SetAuthorizationState(ctx, id, a) })
	ev.State = a
	return ev.Err
}
func (s *spyStore) GetAuthorizationState(ctx context.Context, id string) (*oidc.AuthorizationState, error) {
	var a *oidc.AuthorizationState
	ev := s.call(ctx, "GetAuthorizationState", id, func() (err error) { a, err = s.inner.GetAuthorizationState(ctx, id); return })
	if ev.Err != nil {
		return nil, ev.Err
	}
	if strings.HasPrefix(ev.Fault, "lie:") {
		s.w.countFault("store-lie")
		if ev.Check != nil {
			ev.Check.Perturbed = true
		}
		ev.State = nil
		return &oidc.AuthorizationState{}, nil
	}
	ev.State = a
	return a, nil
}
func (s *spyStore) ClearAuthorizationState(ctx context.Context, id string) error {
	return s.call(ctx, "ClearAuthorizationState", id, func() error { return s.inner.ClearAuthorizationState(ctx, id) }).Err
}
func (s *spyStore) RemoveSession(ctx context.Context, id string) error {
	return s.call(ctx, "RemoveSession", id, func() error { return s.inner.RemoveSession(ctx, id) }).Err
}
func (s *spyStore) RemoveAllExpired(ctx context.Context) error {
	return s.call(ctx, "RemoveAllExpired", "", func() error { return s.inner.RemoveAllExpired(ctx) }).Err
}

// yieldFactory (race build): scheduling points only, no recording.
type yieldFactory struct {
	w     *World
	inner oidc.SessionStoreFactory
}

func (f *yieldFactory) Get(cfg *oidcv1.OIDCConfig) oidc.SessionStore {
	st := f.inner.Get(cfg)
	if st == nil {
		return nil
	}
	return &yieldStore{w: f.w, SessionStore: st}
}

type yieldStore struct {
	w *World
	oidc.SessionStore
}

func (s *yieldStore) y(ctx context.Context) {
	t := s.w.taskOf(ctx)
	s.w.Sim.YieldAs(t, "s")
	s.w.Sim.SetCur(t)
}
func (s *yieldStore) SetTokenResponse(ctx context.Context, id string, t *oidc.TokenResponse) error {
	s.y(ctx)
	return s.SessionStore.SetTokenResponse(ctx, id, t)
}
func (s *yieldStore) GetTokenResponse(ctx context.Context, id string) (*oidc.TokenResponse, error) {
	s.y(ctx)
	return s.SessionStore.GetTokenResponse(ctx, id)
}
func (s *yieldStore) SetAuthorizationState(ctx context.Context, id string, a *oidc.AuthorizationState) error {
	s.y(ctx)
	return s.SessionStore.SetAuthorizationState(ctx, id, a)
}
func (s *yieldStore) GetAuthorizationState(ctx context.Context, id string) (*oidc.AuthorizationState, error) {
	s.y(ctx)
	return s.SessionStore.GetAuthorizationState(ctx, id)
}
func (s *yieldStore) ClearAuthorizationState(ctx context.Context, id string) error {
	s.y(ctx)
	return s.SessionStore.ClearAuthorizationState(ctx, id)
}
func (s *yieldStore) RemoveSession(ctx context.Context, id string) error {
	s.y(ctx)
	return s.SessionStore.RemoveSession(ctx, id)
}

func (w *World) storeKind(fi int) string {
	if fi < 0 || fi >= len(w.Filters) {
		return ""
	}
	return w.Filters[fi].Spec.Store
}

// crashPanic abandons the current check: the process "dies" at this seam call.
type crashPanic struct{}

// corruptField overwrites one stored hash field of a Redis-backed session with garbage.
func (w *World) corruptField(fi int, sid, field string) {
	if fi < 0 || fi >= len(w.Filters) || sid == "" {
		return
	}
	m := penv.db(w.Filters[fi].Spec.Store)
	if m == nil || !m.Exists(sid) {
		return
	}
	w.corruptStore = true
	m.HSet(sid, field, "\x00garbage-"+field)
}

type spyJWKS struct {
	w     *World
	inner oidc.JWKSProvider
}

func (j *spyJWKS) Get(ctx context.Context, cfg *oidcv1.OIDCConfig) (jwk.Set, error) {
	w := j.w
	task := w.taskOf(ctx)
	w.Sim.YieldAs(task, "jwks:get")
	w.Sim.SetCur(task)
	if f := w.faultAt("jwks.get"); f != "" {
		w.countFault("jwks-err")
		return nil, errors.New("sim: injected key-source failure")
	}
	// One task at a time inside the key provider: the jwx cache coalesces concurrent fetches of one URL and
	// releases all waiters at the same fake instant, after which they would run in an order (or in parallel)
	// chosen by the runtime instead of the seed. Waiting tasks poll at their own scheduling instants.
	for j.enter() {
		w.probe("key-provider-calls-serialised-by-the-harness")
		w.Sim.YieldAs(task, "jwks:wait")
		w.Sim.SetCur(task)
	}
	set, err := func() (jwk.Set, error) {
		defer j.leave() // also when the provider panics (the check's recover() turns that into a verdict)
		return j.inner.Get(ctx, cfg)
	}()
	w.Sim.SetCur(task)
	if err != nil && task != nil {
		// whatever the reason (cancelled context, an answer lost earlier and not retried yet): the key source
		// failed inside this check, and the rules for checks with a failing component apply
		w.mu.Lock()
		c := w.active[task.ID]
		w.mu.Unlock()
		if c != nil {
			c.Faults = append(c.Faults, "jwks.get:provider-error")
			w.probe("key-provider-errors-not-injected-at-the-seam")
		}
	}
	return set, err
}

// gateJWKS (race build): one task at a time inside the key provider, nothing recorded. Plain memory only: the
// gate adds no happens-before edge between tasks.
type gateJWKS struct {
	w     *World
	inner oidc.JWKSProvider
}

func (j *gateJWKS) Get(ctx context.Context, cfg *oidcv1.OIDCConfig) (jwk.Set, error) {
	w := j.w
	task := w.taskOf(ctx)
	g := &spyJWKS{w: w}
	for g.enter() {
		w.Sim.YieldAs(task, "jwks:wait")
		w.Sim.SetCur(task)
	}
	defer func() {
		g.leave()
		w.Sim.SetCur(task)
	}()
	return j.inner.Get(ctx, cfg)
}

// enter reports whether the provider is busy; if not, it marks it busy.
//
//go:norace
func (j *spyJWKS) enter() bool {
	if j.w.jwksBusy {
		return true
	}
	j.w.jwksBusy = true
	return false
}

//go:norace
func (j *spyJWKS) leave() { j.w.jwksBusy = false }

// ---------------------------------------------------------------------------------------------
// Ground truth (never through the fault wrapper, never touching access times)
// ---------------------------------------------------------------------------------------------

type SessSnap struct {
	Found    bool
	Tokens   *oidc.TokenResponse
	State    *oidc.AuthorizationState
	Added    time.Time
	Accessed time.Time // memory only
	TTL      time.Duration
	Fields   map[string]string // redis raw
}

func (w *World) realStore(fi int) oidc.SessionStore {
	if w.Rep == nil || w.Rep.sessions == nil || fi < 0 || fi >= len(w.Filters) || w.Filters[fi].Cfg == nil {
		return nil
	}
	return w.Rep.sessions.Get(w.Filters[fi].Cfg)
}

func (w *World) Peek(fi int, sid string) *SessSnap {
	st := w.realStore(fi)
	if st == nil {
		return &SessSnap{}
	}
	if snap, isMem := oidc.VerifPeekMemory(st, sid); isMem {
		if snap == nil {
			return &SessSnap{}
		}
		return &SessSnap{Found: true, Tokens: snap.Tokens, State: snap.State, Added: snap.Added, Accessed: snap.Accessed}
	}
	w.syncRedis()
	m := penv.db(w.Filters[fi].Spec.Store)
	if m == nil || !m.Exists(sid) {
		return &SessSnap{}
	}
	s := &SessSnap{Found: true, Fields: map[string]string{}, TTL: m.TTL(sid)}
	keys, _ := m.HKeys(sid)
	for _, k := range keys {
		s.Fields[k] = m.HGet(sid, k)
	}
	if s.Fields["id_token"] != "" {
		s.Tokens = &oidc.TokenResponse{IDToken: s.Fields["id_token"], AccessToken: s.Fields["access_token"], RefreshToken: s.Fields["refresh_token"]}
		if v := s.Fields["access_token_expiry"]; v != "" {
			s.Tokens.AccessTokenExpiresAt, _ = time.Parse(time.RFC3339Nano, v)
		}
	}
	if s.Fields["state"] != "" || s.Fields["nonce"] != "" {
		s.State = &oidc.AuthorizationState{State: s.Fields["state"], Nonce: s.Fields["nonce"], RequestedURL: s.Fields["requested_url"], CodeVerifier: s.Fields["code_verifier"]}
	}
	if v := s.Fields["time_added"]; v != "" {
		s.Added, _ = time.Parse(time.RFC3339Nano, v)
	}
	return s
}

// ---------------------------------------------------------------------------------------------
// Checks (the Envoy side)
// ---------------------------------------------------------------------------------------------

type CheckRec struct {
	N          int
	Seq0       int64
	Seq1       int64
	T0, T1     time.Time
	Task       int
	Browser    int
	Label      string
	Scheme     string
	Host       string
	Path       string // path incl. query, as Envoy sends it
	Headers    map[string]string
	Filter     int    // model: OIDC filter this request is subject to (-1: none)
	Subject    string // model: oidc | untriggered | unmatched
	SID        string // session id presented under the subject filter's cookie name
	Resp       *envoy.CheckResponse
	Err        error
	Panic      any
	Class      string // ok | redirect-idp | redirect-url | logout | deny | error | panic
	Code       int32
	HTTP       int32
	Location   string
	SetCookie  []string
	Body       string
	OKHeaders  map[string]string
	Spy        []*SpyEv
	TokenReqs  []*TokenReq
	Faults     []string
	Before     *SessSnap
	After      *SessSnap
	Overlapped bool
	Perturbed  bool // the store content was perturbed (eviction, corruption) during this check
	Abandoned  bool // the replica crashed inside this check: no verdict
	PanicStack string
	Replica    int  // index of the replica that served the request
	Cancelled  bool // the caller (Envoy) gave up on this check while it was running: its context was cancelled
	ctx        context.Context
	cancel     context.CancelFunc
}

type taskKey struct{}

// taskOf returns the task a call belongs to: the identity travels in the request context of the check (every
// store and key-source call receives it), which stays right even when the simulator's "current task" is stale
// because several goroutines were released together inside the service or a library.
func (w *World) taskOf(ctx context.Context) *Task {
	if ctx != nil {
		if t, ok := ctx.Value(taskKey{}).(*Task); ok && t != nil {
			return t
		}
	}
	return w.Sim.Cur()
}

// cancelNow models Envoy's ext_authz timeout firing: the request context of the check is cancelled while the
// check keeps running. It is not a failure of any component by itself.
func (c *CheckRec) cancelNow(w *World) {
	if c == nil || c.cancel == nil || c.Cancelled {
		return
	}
	c.Cancelled = true
	w.countFault("request-context-cancelled")
	c.cancel()
}

// cancelActive cancels the context of the check task t is running (fault kind ctx-cancel at a provider endpoint);
// the fault entry faultAt just recorded for that check is dropped: the cancellation is not a component failure.
func (w *World) cancelActive(t *Task) {
	if t == nil {
		return
	}
	w.mu.Lock()
	c := w.active[t.ID]
	w.mu.Unlock()
	if c != nil {
		if n := len(c.Faults); n > 0 && strings.HasSuffix(c.Faults[n-1], ":ctx-cancel") {
			c.Faults = c.Faults[:n-1]
		}
		c.cancelNow(w)
	}
}

// dropFaultEntry removes the entry faultAt just recorded for the check task t is running (fault kinds that are
// not failures of a component).
func (w *World) dropFaultEntry(t *Task) {
	if t == nil {
		return
	}
	w.mu.Lock()
	c := w.active[t.ID]
	w.mu.Unlock()
	if c != nil && len(c.Faults) > 0 {
		c.Faults = c.Faults[:len(c.Faults)-1]
	}
}

// failedAfterCancel records that a call made with the cancelled context failed: from then on the check has a
// genuine component failure inside it (the rules for faulted checks apply). Only components that really depend
// on the context qualify: a Redis-backed store and the fetching key provider, not the in-memory store.
func (c *CheckRec) failedAfterCancel(site string) {
	if c != nil && c.Cancelled {
		c.Faults = append(c.Faults, site+":failed-after-cancel")
	}
}

func pathComponent(full string) string {
	if i := strings.IndexAny(full, "?#"); i >= 0 {
		return full[:i]
	}
	return full
}

func modelStringMatch(m StringMatch, path string) bool {
	switch m.Kind {
	case "exact":
		return path == m.Val
	case "prefix":
		return strings.HasPrefix(path, m.Val)
	case "suffix":
		return strings.HasSuffix(path, m.Val)
	}
	return false
}

// modelSubject is the documented routing function: trigger rules on the *path component*, first
// matching chain. Returns the index of the OIDC filter the request is subject to, or -1.
func (w *World) modelSubject(path string, hdr map[string]string) (int, string) {
	rules := w.Spec.TriggerRules
	pc := pathComponent(path)
	triggered := len(rules) == 0 || path == ""
	for _, r := range rules {
		if triggered {
			break
		}
		ex := false
		for _, m := range r.Excluded {
			if modelStringMatch(m, pc) {
				ex = true
			}
		}
		if ex {
			continue
		}
		if len(r.Included) == 0 {
			triggered = true
			break
		}
		for _, m := range r.Included {
			if modelStringMatch(m, pc) {
				triggered = true
			}
		}
	}
	if !triggered {
		return -1, "untriggered"
	}
	for i := range w.Spec.Filters {
		f := &w.Spec.Filters[i]
		if f.Match == nil {
			return i, "oidc"
		}
		v := hdr[strings.ToLower(f.Match.Header)]
		if f.Match.Equality != "" {
			if v == f.Match.Equality {
				return i, "oidc"
			}
		} else if strings.HasPrefix(v, f.Match.Prefix) {
			return i, "oidc"
		}
	}
	return -1, "unmatched"
}

// cookieValue is an independent reading of the Cookie header: the value of the first pair whose
// name equals name.
func cookieValue(header, name string) string {
	for _, p := range strings.Split(header, ";") {
		p = strings.TrimSpace(p)
		if k, v, ok := strings.Cut(p, "="); ok && k == name {
			return v
		}
	}
	return ""
}

func mkRequest(scheme, host, path string, hdr map[string]string) *envoy.CheckRequest {
	h := map[string]string{}
	for k, v := range hdr {
		h[strings.ToLower(k)] = v
	}
	h[":authority"] = host
	h[":path"] = path
	h[":method"] = "GET"
	if _, ok := h["x-request-id"]; !ok {
		h["x-request-id"] = "4bf92f35-77b3-4da6-a3ce-929d0e0e4736"
	}
	return &envoy.CheckRequest{Attributes: &envoy.AttributeContext{
		Source:      &envoy.AttributeContext_Peer{Principal: "spiffe://cluster.local/ns/default/sa/ingress"},
		Destination: &envoy.AttributeContext_Peer{Principal: "spiffe://cluster.local/ns/default/sa/app"},
		Request: &envoy.AttributeContext_Request{Http: &envoy.AttributeContext_HttpRequest{
			Id: "req", Scheme: scheme, Host: host, Path: path, Method: "GET", Headers: h, Protocol: "HTTP/1.1"}}}}
}

// Check sends one request to the replica, records everything about it and runs the per-response
// monitors.
func (w *World) Check(browser int, label, scheme, host, path string, hdr map[string]string) *CheckRec {
	rec := &CheckRec{N: len(w.Checks), Browser: browser, Label: label, Scheme: scheme, Host: host, Path: path, Headers: hdr, Filter: -1}
	w.Checks = append(w.Checks, rec)
	task := w.Sim.Cur()
	for _, a := range w.active {
		a.Overlapped, rec.Overlapped = true, true
	}
	if task != nil {
		rec.Task = task.ID
		w.active[task.ID] = rec
	}
	rec.Filter, rec.Subject = w.modelSubject(path, lowerKeys(mergeAuthority(hdr, host)))
	if rec.Filter >= 0 {
		rec.SID = cookieValue(hdr["cookie"], w.Filters[rec.Filter].Spec.CookieName())
		if sm := w.sess(rec.SID); sm != nil && sm.Filter != rec.Filter {
			w.probe("foreign-session-presented")
		}
		if rec.SID != "" {
			rec.Before = w.Peek(rec.Filter, rec.SID)
			w.presented[rec.SID] = true
		}
	}
	w.Sim.Yield("check:start")
	w.Sim.SetCur(task)
	rec.Seq0, rec.T0 = w.Sim.Tick(), time.Now()
	w.invoke(rec, mkRequest(scheme, host, path, hdr))
	// Back from the service: take a scheduling step of our own before touching simulator state. Checks that the
	// service (or a library) released together - waiters of one lock, of one coalesced call - come back at the same
	// fake instant and run in parallel until here; from here on one task runs at a time again.
	w.Sim.YieldAs(task, "check:ret")
	w.Sim.SetCur(task)
	rec.Seq1, rec.T1 = w.Sim.Tick(), time.Now()
	if task != nil {
		delete(w.active, task.ID)
	}
	if rec.Filter >= 0 && rec.SID != "" {
		rec.After = w.Peek(rec.Filter, rec.SID)
	}
	w.classify(rec)
	if rec.Abandoned {
		w.CrashRestart()
	}
	tk := ""
	for _, tr := range rec.TokenReqs {
		tk += fmt.Sprintf(" [token %s -> %d %s %s]", tr.Grant, tr.Status, tr.Fault, sortedProblems(tr.Problems))
	}
	w.logf("t=%s #%d b%d %s %s%s sid=%s -> %s code=%d http=%d faults=%v%s", time.Since(w.start).Round(time.Millisecond), rec.N, browser, label, host, path, w.canon(rec.SID), rec.Class, rec.Code, rec.HTTP, rec.Faults, tk)
	w.monitors(rec)
	return rec
}

// CheckRaw sends an arbitrary (possibly malformed) CheckRequest. Only the crash/well-formedness
// monitors apply: the routing model is not defined for requests Envoy would never build.
func (w *World) CheckRaw(label string, req *envoy.CheckRequest) *CheckRec {
	rec := &CheckRec{N: len(w.Checks), Browser: 9, Label: label, Filter: -1, Subject: "raw", Path: req.GetAttributes().GetRequest().GetHttp().GetPath(), Host: req.GetAttributes().GetRequest().GetHttp().GetHost()}
	w.Checks = append(w.Checks, rec)
	task := w.Sim.Cur()
	if task != nil {
		rec.Task = task.ID
		w.active[task.ID] = rec
	}
	rec.Seq0, rec.T0 = w.Sim.Tick(), time.Now()
	w.invoke(rec, req)
	w.Sim.YieldAs(task, "check:ret")
	w.Sim.SetCur(task)
	rec.Seq1, rec.T1 = w.Sim.Tick(), time.Now()
	if task != nil {
		delete(w.active, task.ID)
	}
	w.classify(rec)
	w.logf("t=%s #%d raw %s -> %s code=%d", time.Since(w.start).Round(time.Millisecond), rec.N, label, rec.Class, rec.Code)
	w.monPanic(rec)
	if rec.Class != "panic" && rec.Class != "abandoned" {
		w.monLeak(rec)
	}
	w.probe("raw-requests")
	return rec
}

func mergeAuthority(hdr map[string]string, host string) map[string]string {
	o := map[string]string{":authority": host}
	for k, v := range hdr {
		o[k] = v
	}
	return o
}

func lowerKeys(m map[string]string) map[string]string {
	o := map[string]string{}
	for k, v := range m {
		o[strings.ToLower(k)] = v
	}
	return o
}

func (w *World) invoke(rec *CheckRec, req *envoy.CheckRequest) {
	defer func() {
		if p := recover(); p != nil {
			if _, ok := p.(crashPanic); ok {
				rec.Abandoned = true
				return
			}
			rec.Panic = p
			rec.PanicStack = string(debug.Stack())
		}
	}()
	rep := w.Rep
	if t := w.Sim.Cur(); t != nil && w.taskRep[t.ID] != nil {
		rep = w.taskRep[t.ID]
	}
	if rep == nil || rep.filter == nil {
		rec.Err = errors.New("no replica")
		return
	}
	rec.Replica = rep.idx
	rec.ctx, rec.cancel = context.WithCancel(context.WithValue(context.Background(), taskKey{}, w.Sim.Cur()))
	defer rec.cancel()
	if rep != w.Rep {
		rec.Resp, rec.Err = w.viaInterceptorsOn(rep, rec.ctx, req)
		return
	}
	rec.Resp, rec.Err = w.dispatch(rec.ctx, rec.Filter, req)
}

// dispatch sends a request into the replica: through ExtAuthZFilter.Check (the service's API), or — in
// handler mode, for single-filter worlds without trigger rules — through ONE long-lived oidcHandler per
// filter built with the same constructor Check uses (component level: whatever a handler or its
// identifier generator keeps between requests is then shared, as the handler's own tests share it).
func (w *World) dispatch(ctx context.Context, fi int, req *envoy.CheckRequest) (*envoy.CheckResponse, error) {
	if !w.Spec.HandlerMode || fi < 0 {
		return w.viaInterceptors(ctx, req)
	}
	h, err := w.sharedHandler(fi)
	if err != nil {
		// (e.g. the provider was unreachable when the handler was to be built) fall back to the service's API
		return w.viaInterceptors(ctx, req)
	}
	resp := &envoy.CheckResponse{}
	if err := h.Process(ctx, req, resp); err != nil {
		return nil, err
	}
	return resp, nil
}

// viaInterceptors calls ExtAuthZFilter.Check through the same unary interceptor chain, in the same order, as
// server.Server installs on its gRPC server (request-id propagation, request/response logging), so that
// their code runs under the harness's recover() like the rest of a check.
func (w *World) viaInterceptors(ctx0 context.Context, req *envoy.CheckRequest) (*envoy.CheckResponse, error) {
	return w.viaInterceptorsOn(w.Rep, ctx0, req)
}

func (w *World) viaInterceptorsOn(rep *Replica, ctx0 context.Context, req *envoy.CheckRequest) (*envoy.CheckResponse, error) {
	info := &grpc.UnaryServerInfo{FullMethod: "/envoy.service.auth.v3.Authorization/Check"}
	logmw := server.NewLogMiddleware()
	out, err := server.PropagateRequestID(ctx0, req, info, func(ctx context.Context, r interface{}) (interface{}, error) {
		return logmw.UnaryServerInterceptor(ctx, r, info, func(ctx context.Context, r interface{}) (interface{}, error) {
			cr, _ := r.(*envoy.CheckRequest)
			return rep.filter.Check(ctx, cr)
		})
	})
	resp, _ := out.(*envoy.CheckResponse)
	return resp, err
}

func (w *World) sharedHandler(fi int) (authz.Handler, error) {
	if h := w.handlers[w.Rep][fi]; h != nil {
		return h, nil
	}
	return nil, errors.New("sim: no shared handler for this filter")
}

// buildSharedHandlers creates the long-lived handlers at boot (sequentially: no lock may be held across a
// scheduling point in the bubble).
func (w *World) buildSharedHandlers() {
	var fac oidc.SessionStoreFactory = &spyFactory{w: w, inner: w.Rep.sessions}
	var jw oidc.JWKSProvider = &spyJWKS{w: w, inner: w.Rep.jwks}
	if w.Lean {
		fac, jw = &yieldFactory{w: w, inner: w.Rep.sessions}, &gateJWKS{w: w, inner: w.Rep.jwks}
	}
	if w.handlers == nil {
		w.handlers = map[*Replica]map[int]authz.Handler{}
	}
	w.handlers[w.Rep] = map[int]authz.Handler{}
	for _, f := range w.Filters {
		h, err := authz.NewOIDCHandler(f.Cfg, w.Rep.tlsPool, jw, fac, oidc.Clock{}, oidc.NewRandomGenerator())
		if err == nil {
			w.handlers[w.Rep][f.Idx] = h
		}
	}
}

func hdrVals(hs []*corev3.HeaderValueOption, key string) []string {
	var out []string
	for _, h := range hs {
		if strings.EqualFold(h.GetHeader().GetKey(), key) {
			out = append(out, h.GetHeader().GetValue())
		}
	}
	return out
}

func (w *World) classify(rec *CheckRec) {
	switch {
	case rec.Abandoned:
		rec.Class = "abandoned"
		return
	case rec.Panic != nil:
		rec.Class = "panic"
		return
	case rec.Err != nil || rec.Resp == nil:
		rec.Class = "error"
		return
	}
	rec.Code = rec.Resp.GetStatus().GetCode()
	if rec.Code == 0 {
		rec.Class = "ok"
		rec.OKHeaders = map[string]string{}
		for _, h := range rec.Resp.GetOkResponse().GetHeaders() {
			rec.OKHeaders[h.GetHeader().GetKey()] = h.GetHeader().GetValue()
		}
		return
	}
	d := rec.Resp.GetDeniedResponse()
	rec.HTTP = int32(d.GetStatus().GetCode())
	rec.Body = d.GetBody()
	rec.SetCookie = hdrVals(d.GetHeaders(), "set-cookie")
	if locs := hdrVals(d.GetHeaders(), "location"); len(locs) > 0 {
		rec.Location = locs[0]
	}
	rec.Class = "deny"
	if rec.HTTP == 302 && rec.Location != "" {
		rec.Class = "redirect-url"
		for _, f := range w.Filters {
			base, _, _ := strings.Cut(f.IdP.AuthorizeURL(), "?")
			if strings.HasPrefix(rec.Location, base) {
				rec.Class = "redirect-idp"
			}
			if f.Spec.Logout != nil && rec.Filter == f.Idx && pathComponent(rec.Path) == f.Spec.Logout.Path {
				rec.Class = "logout"
			}
		}
	}
}

// canon numbers identifiers by first appearance so that traces compare across runs.
func (w *World) canon(id string) string {
	if id == "" {
		return "-"
	}
	if n, ok := w.issuedSIDs[id]; ok {
		return fmt.Sprintf("S%d", n)
	}
	return "X"
}

// TraceHash is the canonical event trace of the run: request labels, verdict classes, store calls
// and token requests in order, identifiers canonicalised.
func (w *World) TraceSig() string {
	var b strings.Builder
	for _, c := range w.Checks {
		fmt.Fprintf(&b, "%s:%s:%s:%d:%s[", c.Label, c.Subject, w.canon(c.SID), c.Seq0, c.Class)
		for _, s := range c.Spy {
			fmt.Fprintf(&b, "%s%s,", s.Method[:4], s.Fault)
		}
		for _, t := range c.TokenReqs {
			fmt.Fprintf(&b, "T%s%d%s,", t.Grant[:min(4, len(t.Grant))], t.Status, t.Fault)
		}
		b.WriteString("]")
	}
	return b.String()
}

func (w *World) FaultSummary() string {
	ks := sortedKeys(w.FaultsFired)
	var parts []string
	for _, k := range ks {
		parts = append(parts, fmt.Sprintf("%s=%d", k, w.FaultsFired[k]))
	}
	sort.Strings(parts)
	return strings.Join(parts, ",")
}

// oomHook is the miniredis pre-hook of the redis-torn fault. It runs on the server's goroutines (outside the bubble).
func oomHook(srv *redisserver.Server, k int, n, failed *atomic.Int64) redisserver.Hook {
	var mu sync.Mutex
	inMulti := map[*redisserver.Peer]bool{}
	var nested atomic.Bool
	const msg = "OOM command not allowed when used memory > 'maxmemory'."
	return func(c *redisserver.Peer, cmd string, args ...string) bool {
		if nested.Load() {
			return false // our own Dispatch below
		}
		mu.Lock()
		defer mu.Unlock()
		switch cmd {
		case "HELLO", "CLIENT", "AUTH", "SELECT", "PING":
			return false
		}
		if cmd == "MULTI" {
			inMulti[c] = true // never refused and not counted: a server that refuses writes still opens transactions
			return false
		}
		failing := n.Add(1) >= int64(k)
		tx := inMulti[c]
		switch cmd {
		case "EXEC", "DISCARD":
			delete(inMulti, c)
		}
		if !failing {
			return false
		}
		failed.Add(1)
		switch {
		case tx && cmd == "EXEC":
			if failed.Load() > 1 {
				return false // a queued command was refused: the server answers EXECABORT and drops the transaction
			}
			// EXEC itself is the first refused command: the transaction is dropped, nothing is applied
			nested.Store(true)
			srv.Dispatch(c, []string{"DISCARD"})
			nested.Store(false)
			return true
		case tx && cmd != "DISCARD":
			// refuse the queued command the way the server does: error reply, transaction flagged for abort
			nested.Store(true)
			srv.Dispatch(c, []string{cmd})
			nested.Store(false)
			return true
		}
		c.WriteError(msg)
		return true
	}
}

// isRedisKind reports whether a filter's store kind of the spec is backed by a Redis server.
func isRedisKind(kind string) bool { return strings.HasPrefix(kind, "redis") }
