//go:build verif

// Package simsync is injected (by go -overlay, at check time only) as
// github.com/istio-ecosystem/authservice/internal/simsync. Instrumented copies of selected
// authservice files call Yield before every statement, use Mutex/RWMutex instead of the sync ones
// and start goroutines through Go, so that the simulator can pre-empt a goroutine anywhere —
// including inside a critical section — without ever blocking another one on a real mutex (a real
// mutex wait is not "durably blocked" for testing/synctest and would stall the fake clock).
package simsync

import "sync"

// YieldFn and GoFn are set by the simulator; nil means "behave like the real thing".
var (
	YieldFn func(pos int)
	GoFn    func(f func())
	// SpinLimit bounds the yields a Lock may spend waiting before it is reported as a deadlock.
	SpinLimit = 3000
	// Deadlocks counts Lock calls that exceeded SpinLimit (read by the simulator after a run).
	Deadlocks int
)

// The hook variables are simulator state: their accesses must be invisible to the race detector.
//
//go:norace
func yieldFn() func(int) { return YieldFn }

//go:norace
func goFn() func(func()) { return GoFn }

//go:norace
func SetHooks(y func(int), g func(func())) { YieldFn, GoFn = y, g }

func Yield(pos int) {
	if f := yieldFn(); f != nil {
		f(pos)
	}
}

func Go(f func()) {
	if g := goFn(); g != nil {
		g(f)
		return
	}
	go f()
}

// Mutex: a simulator-owned flag decides who may proceed; the embedded real mutex is never contended
// and only keeps the happens-before edges the program's own locking creates (so that the race
// detector judges the program, not the simulator).
type Mutex struct {
	held bool
	real sync.Mutex
}

//go:norace
func (m *Mutex) isHeld() bool { return m.held }

//go:norace
func (m *Mutex) setHeld(v bool) { m.held = v }

//go:norace
func noteDeadlock() { Deadlocks++ }

func (m *Mutex) Lock() {
	n := 0
	for m.isHeld() {
		if yieldFn() == nil {
			break // no simulator: fall through to the real mutex
		}
		Yield(-1)
		n++
		if n > SpinLimit {
			noteDeadlock()
			panic("simsync: lock not acquired within the step budget (deadlock?)")
		}
	}
	m.real.Lock()
	m.setHeld(true)
}

func (m *Mutex) Unlock() {
	m.setHeld(false)
	m.real.Unlock()
}

func (m *Mutex) TryLock() bool {
	if m.isHeld() {
		return false
	}
	if !m.real.TryLock() {
		return false
	}
	m.setHeld(true)
	return true
}

// RWMutex with the same discipline.
type RWMutex struct {
	writer  bool
	readers int
	real    sync.RWMutex
}

//go:norace
func (m *RWMutex) state() (bool, int) { return m.writer, m.readers }

//go:norace
func (m *RWMutex) setWriter(v bool) { m.writer = v }

//go:norace
func (m *RWMutex) addReader(d int) { m.readers += d }

func (m *RWMutex) Lock() {
	n := 0
	for {
		w, r := m.state()
		if !w && r == 0 || yieldFn() == nil {
			break
		}
		Yield(-1)
		n++
		if n > SpinLimit {
			noteDeadlock()
			panic("simsync: write lock not acquired within the step budget (deadlock?)")
		}
	}
	m.real.Lock()
	m.setWriter(true)
}

func (m *RWMutex) Unlock() {
	m.setWriter(false)
	m.real.Unlock()
}

func (m *RWMutex) RLock() {
	n := 0
	for {
		w, _ := m.state()
		if !w || yieldFn() == nil {
			break
		}
		Yield(-1)
		n++
		if n > SpinLimit {
			noteDeadlock()
			panic("simsync: read lock not acquired within the step budget (deadlock?)")
		}
	}
	m.real.RLock()
	m.addReader(1)
}

func (m *RWMutex) RUnlock() {
	m.addReader(-1)
	m.real.RUnlock()
}

// Once with the same discipline: callers that arrive while f is running wait on a simulator Mutex (spinning with
// yields), not on a real one; the real sync.Once underneath keeps the happens-before edge Do gives its callers.
type Once struct {
	m    Mutex
	done bool
	real sync.Once
}

//go:norace
func (o *Once) isDone() bool { return o.done }

//go:norace
func (o *Once) setDone() { o.done = true }

func (o *Once) Do(f func()) {
	if !o.isDone() {
		o.m.Lock()
		if !o.isDone() {
			defer o.m.Unlock()
			defer o.setDone()
			o.real.Do(f)
			return
		}
		o.m.Unlock()
	}
	o.real.Do(func() {}) // already done: synchronise with the call that ran f, as sync.Once does
}
