module instrument

go 1.24
