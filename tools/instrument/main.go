// instrument rewrites one Go source file of authservice for the simulator:
//   - a simsync.Yield(<line>) before every statement of every function body (nested blocks included),
//   - sync.Mutex / sync.RWMutex / sync.Once types replaced by simsync.Mutex / simsync.RWMutex / simsync.Once,
//   - `go f(x)` replaced by simsync.Go(func() { f(x) }),
//   - the build tag `verif` added, the import of simsync added, an unused `sync` import dropped.
// The rewrite is generic: it knows nothing about what the functions do, so it applies to an edited
// tree as well. Standard library only.
package main

import (
	"bytes"
	"fmt"
	"go/ast"
	"go/format"
	"go/parser"
	"go/token"
	"os"
	"strconv"
	"strings"
)

const simsyncPath = "github.com/istio-ecosystem/authservice/internal/simsync"

// deterministicSelect rewrites a blocking select whose cases are all receives into
//
//	{ done := false
//	  select { case <first>:  done = true; body  default: }
//	  if !done { select { case <second>: done = true; body  default: } } ...
//	  if !done { <the original select> } }
//
// When several cases are ready on arrival the Go runtime picks one at random, which no seed controls; taking the
// first ready case in source order is one of the choices the language allows. When none is ready the original
// select blocks as before. break and continue inside the bodies keep their meaning (break leaves a select,
// continue is not captured by any new loop).
func deterministicSelect(st *ast.SelectStmt, line int) ast.Stmt {
	var clauses []*ast.CommClause
	for _, c := range st.Body.List {
		cc := c.(*ast.CommClause)
		if cc.Comm == nil {
			return nil // has a default: never blocks, nothing to decide
		}
		switch comm := cc.Comm.(type) {
		case *ast.ExprStmt:
			u, ok := comm.X.(*ast.UnaryExpr)
			if !ok || u.Op != token.ARROW {
				return nil
			}
		case *ast.AssignStmt:
			if len(comm.Rhs) != 1 {
				return nil
			}
			u, ok := comm.Rhs[0].(*ast.UnaryExpr)
			if !ok || u.Op != token.ARROW {
				return nil
			}
		default:
			return nil // a send
		}
		clauses = append(clauses, cc)
	}
	if len(clauses) < 2 {
		return nil
	}
	done := ast.NewIdent("simsel" + strconv.Itoa(line))
	setDone := func() ast.Stmt {
		return &ast.AssignStmt{Lhs: []ast.Expr{ast.NewIdent(done.Name)}, Tok: token.ASSIGN, Rhs: []ast.Expr{ast.NewIdent("true")}}
	}
	notDone := func() ast.Expr { return &ast.UnaryExpr{Op: token.NOT, X: ast.NewIdent(done.Name)} }
	block := &ast.BlockStmt{}
	block.List = append(block.List, &ast.AssignStmt{Lhs: []ast.Expr{ast.NewIdent(done.Name)}, Tok: token.DEFINE, Rhs: []ast.Expr{ast.NewIdent("false")}})
	for i, cc := range clauses {
		poll := &ast.SelectStmt{Body: &ast.BlockStmt{List: []ast.Stmt{
			&ast.CommClause{Comm: cc.Comm, Body: append([]ast.Stmt{setDone()}, cc.Body...)},
			&ast.CommClause{},
		}}}
		if i == 0 {
			block.List = append(block.List, poll)
		} else {
			block.List = append(block.List, &ast.IfStmt{Cond: notDone(), Body: &ast.BlockStmt{List: []ast.Stmt{poll}}})
		}
	}
	block.List = append(block.List, &ast.IfStmt{Cond: notDone(), Body: &ast.BlockStmt{List: []ast.Stmt{st}}})
	return block
}

func main() {
	if len(os.Args) != 3 {
		fmt.Fprintln(os.Stderr, "usage: instrument <in.go> <out.go>")
		os.Exit(2)
	}
	fset := token.NewFileSet()
	f, err := parser.ParseFile(fset, os.Args[1], nil, parser.ParseComments)
	if err != nil {
		fmt.Fprintln(os.Stderr, err)
		os.Exit(1)
	}
	// Comments confuse position-preserving printing once statements are inserted; the instrumented copy
	// is never read by humans, so they are dropped (build constraints are re-added below).
	f.Comments = nil
	f.Doc = nil

	yield := func(line int) ast.Stmt {
		return &ast.ExprStmt{X: &ast.CallExpr{Fun: &ast.SelectorExpr{X: ast.NewIdent("simsync"), Sel: ast.NewIdent("Yield")},
			Args: []ast.Expr{&ast.BasicLit{Kind: token.INT, Value: strconv.Itoa(line)}}}}
	}
	var rewriteList func(list []ast.Stmt) []ast.Stmt
	var rewriteStmt func(s ast.Stmt) ast.Stmt
	rewriteBlock := func(b *ast.BlockStmt) {
		if b != nil {
			b.List = rewriteList(b.List)
		}
	}
	rewriteExprFuncs := func(n ast.Node) {
		ast.Inspect(n, func(x ast.Node) bool {
			if fl, ok := x.(*ast.FuncLit); ok {
				rewriteBlock(fl.Body)
				return false
			}
			return true
		})
	}
	rewriteStmt = func(s ast.Stmt) ast.Stmt {
		switch st := s.(type) {
		case *ast.BlockStmt:
			rewriteBlock(st)
		case *ast.IfStmt:
			rewriteBlock(st.Body)
			if st.Else != nil {
				st.Else = rewriteStmt(st.Else)
			}
			if st.Init != nil {
				rewriteExprFuncs(st.Init)
			}
			rewriteExprFuncs(st.Cond)
		case *ast.ForStmt:
			rewriteBlock(st.Body)
		case *ast.RangeStmt:
			rewriteBlock(st.Body)
		case *ast.SwitchStmt:
			for _, c := range st.Body.List {
				cc := c.(*ast.CaseClause)
				cc.Body = rewriteList(cc.Body)
			}
		case *ast.TypeSwitchStmt:
			for _, c := range st.Body.List {
				cc := c.(*ast.CaseClause)
				cc.Body = rewriteList(cc.Body)
			}
		case *ast.SelectStmt:
			for _, c := range st.Body.List {
				cc := c.(*ast.CommClause)
				cc.Body = rewriteList(cc.Body)
			}
			if det := deterministicSelect(st, fset.Position(st.Pos()).Line); det != nil {
				return det
			}
		case *ast.LabeledStmt:
			if sel, ok := st.Stmt.(*ast.SelectStmt); ok {
				// a labelled select keeps its shape (break <label> must keep referring to a select)
				for _, c := range sel.Body.List {
					cc := c.(*ast.CommClause)
					cc.Body = rewriteList(cc.Body)
				}
				return s
			}
			st.Stmt = rewriteStmt(st.Stmt)
		case *ast.GoStmt:
			// go f(x)  =>  simsync.Go(func() { f(x) })   (arguments are evaluated in the new goroutine; for the
			// instrumented files they are values that do not change between the two instants)
			if fl, ok := st.Call.Fun.(*ast.FuncLit); ok && len(st.Call.Args) == 0 {
				rewriteBlock(fl.Body)
				return &ast.ExprStmt{X: &ast.CallExpr{Fun: &ast.SelectorExpr{X: ast.NewIdent("simsync"), Sel: ast.NewIdent("Go")}, Args: []ast.Expr{fl}}}
			}
			rewriteExprFuncs(st.Call)
			body := &ast.BlockStmt{List: []ast.Stmt{&ast.ExprStmt{X: st.Call}}}
			return &ast.ExprStmt{X: &ast.CallExpr{Fun: &ast.SelectorExpr{X: ast.NewIdent("simsync"), Sel: ast.NewIdent("Go")},
				Args: []ast.Expr{&ast.FuncLit{Type: &ast.FuncType{Params: &ast.FieldList{}}, Body: body}}}}
		case *ast.DeferStmt:
			rewriteExprFuncs(st.Call)
		case *ast.ExprStmt:
			rewriteExprFuncs(st.X)
		case *ast.AssignStmt:
			for _, r := range st.Rhs {
				rewriteExprFuncs(r)
			}
		case *ast.ReturnStmt:
			for _, r := range st.Results {
				rewriteExprFuncs(r)
			}
		case *ast.DeclStmt:
			rewriteExprFuncs(st.Decl)
		}
		return s
	}
	rewriteList = func(list []ast.Stmt) []ast.Stmt {
		var out []ast.Stmt
		for _, s := range list {
			line := fset.Position(s.Pos()).Line
			s = rewriteStmt(s)
			out = append(out, yield(line), s)
		}
		return out
	}
	for _, d := range f.Decls {
		switch fd := d.(type) {
		case *ast.FuncDecl:
			rewriteBlock(fd.Body)
		case *ast.GenDecl:
			// package-level var initialisers containing function literals
			for _, sp := range fd.Specs {
				if vs, ok := sp.(*ast.ValueSpec); ok {
					for _, v := range vs.Values {
						rewriteExprFuncs(v)
					}
				}
			}
		}
	}
	// sync.Mutex / sync.RWMutex -> simsync
	usesSync := false
	ast.Inspect(f, func(n ast.Node) bool {
		if se, ok := n.(*ast.SelectorExpr); ok {
			if id, ok := se.X.(*ast.Ident); ok && id.Name == "sync" {
				if se.Sel.Name == "Mutex" || se.Sel.Name == "RWMutex" || se.Sel.Name == "Once" {
					id.Name = "simsync"
				} else {
					usesSync = true
				}
			}
		}
		return true
	})
	// imports
	for _, d := range f.Decls {
		gd, ok := d.(*ast.GenDecl)
		if !ok || gd.Tok != token.IMPORT {
			continue
		}
		var specs []ast.Spec
		for _, sp := range gd.Specs {
			is := sp.(*ast.ImportSpec)
			if is.Path.Value == `"sync"` && !usesSync {
				continue
			}
			specs = append(specs, sp)
		}
		specs = append(specs, &ast.ImportSpec{Path: &ast.BasicLit{Kind: token.STRING, Value: strconv.Quote(simsyncPath)}})
		gd.Specs = specs
		if gd.Lparen == token.NoPos {
			gd.Lparen = gd.Pos()
		}
		break
	}
	f.Imports = nil
	var buf bytes.Buffer
	if err := format.Node(&buf, fset, f); err != nil {
		fmt.Fprintln(os.Stderr, "format:", err)
		os.Exit(1)
	}
	src := buf.String()
	if !strings.Contains(src, simsyncPath) {
		// file without import block
		p := strings.Index(src, "package ")
		i := p + strings.Index(src[p:], "\n")
		src = src[:i+1] + "\nimport \"" + simsyncPath + "\"\n" + src[i+1:]
	}
	src = "//go:build verif\n\n" + src
	if err := os.WriteFile(os.Args[2], []byte(src), 0o644); err != nil {
		fmt.Fprintln(os.Stderr, err)
		os.Exit(1)
	}
}
